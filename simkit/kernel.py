"""Deterministic simulation kernel: real OS threads, one baton, virtual time.

Every simulated thread is a real OS thread that only runs while it holds the
baton (its own lock, released by the kernel for exactly one thread at a time).
Who runs next is decided only here, from a seeded PRNG.  See DESIGN.md §3.
"""

from __future__ import annotations

import _thread
import hashlib
import heapq
import random
import sys
import traceback

NEW, RUNNABLE, BLOCKED, DONE = "new", "runnable", "blocked", "done"

TIMEOUT = ("timeout",)  # wake value for expired deadlines


class SimKilled(BaseException):
    """Raised inside simulated threads when the run is over (not catchable by `except Exception`)."""


class SimAbort(Exception):
    """Raised in the root thread when the kernel cannot continue (caps, root blocked for ever)."""

    def __init__(self, kind, detail=""):
        super().__init__(f"{kind}: {detail}")
        self.kind = kind
        self.detail = detail


class HarnessError(Exception):
    """The simulator itself misbehaved; never a property verdict."""


class Rec:
    """Kernel record of one simulated thread."""

    __slots__ = (
        "tid", "name", "role", "baton", "state", "wake_value", "deadline", "wait_gen", "prio",
        "fn", "is_root", "waiting_on", "spin_a", "spin_b", "spin_n", "exc", "obj", "steps",
        "blocked_since", "settling", "step_wake", "stall_at", "stall_dur", "stall_wake", "stall_off", "since_wake",
    )

    def __init__(self, tid, name, role, fn, is_root=False):
        self.tid = tid
        self.name = name
        self.role = role
        self.baton = _thread.allocate_lock()
        self.baton.acquire()
        self.state = NEW
        self.wake_value = None
        self.deadline = None
        self.wait_gen = 0
        self.prio = 0.0
        self.fn = fn
        self.is_root = is_root
        self.waiting_on = None
        self.spin_a = None
        self.spin_b = None
        self.spin_n = 0
        self.exc = None
        self.obj = None
        self.steps = 0
        self.blocked_since = 0.0
        self.settling = False
        self.step_wake = None
        self.stall_at = None
        self.stall_dur = 0.0
        self.stall_wake = None      # wake-relative stall: after the thread's n-th wake-up from a blocking call ...
        self.stall_off = 0          # ... at its k-th yield point
        self.since_wake = 0

    def __repr__(self):
        return f"<T{self.tid} {self.role}:{self.name} {self.state}>"


class Limits:
    def __init__(self, max_steps=2_000_000, max_vtime=3600.0, max_threads=96, spin_limit=48):
        self.max_steps = max_steps
        self.max_vtime = max_vtime
        self.max_threads = max_threads
        self.spin_limit = spin_limit


class Kernel:
    """One simulated run."""

    def __init__(self, sched_cfg: dict, sched_seed: int, limits: Limits | None = None):
        self.limits = limits or Limits()
        self.now = 0.0
        self.seq = 0
        self.steps = 0
        self.switches = 0
        self.threads: list[Rec] = []
        self.current: Rec | None = None
        self.root: Rec | None = None
        self.heap: list = []  # (time, order, kind, payload)
        self.heap_order = 0
        self.ending = False
        self.abort: SimAbort | None = None
        self._live = 0
        self._live_lock = _thread.allocate_lock()
        self._all_done = _thread.allocate_lock()
        self.digest = hashlib.blake2b(digest_size=16)
        self.events: list = []
        self.keep_events = True
        self.max_events = 4000
        self.probes: dict[str, int] = {}
        self.faults: dict[str, int] = {}
        self.violations: list = []
        self.sched_hash = hashlib.blake2b(digest_size=8)
        self.sched_cfg = dict(sched_cfg)
        self.rng = random.Random(sched_seed)
        self.policy = sched_cfg.get("policy", "random")
        self.p_switch = sched_cfg.get("p", 0.1)
        self.preempt = sched_cfg.get("preempt", "line")  # sync | line
        self.quantum = sched_cfg.get("q", 20)
        self._rr_left = self.quantum
        self.change_points = set()
        self.focus_left = 8     # focus() calls honoured per run (more would turn PCT into uniform random switching)
        self.pre_steps = 0      # yield points at which the policy may pre-empt (in "sync" mode: synchronisation calls only)
        if self.policy == "pct":
            horizon = sched_cfg.get("horizon", 2000)
            for _ in range(sched_cfg.get("d", 2)):
                self.change_points.add(self.rng.randrange(1, horizon))
        self._low_prio = 0.0
        # virtual CPU cost of one kernel step: with a non-zero cost the clock advances while threads compute, so network
        # deliveries and timer expiries can land in the middle of activity (not only when every thread is blocked)
        self.step_cost = sched_cfg["cpu"] if "cpu" in sched_cfg else self.rng.choice([0.0, 0.0, 1e-6, 2e-5])
        # fault "stalled thread": a new thread may be frozen for a while at one of its first yield points (an OS that
        # deschedules it, a GC pause); opt-in per scenario because timing oracles must allow for it
        self.stall_cfg = sched_cfg.get("stall")
        self.stalls_left = (self.stall_cfg or {}).get("max", 0)
        self.stalled_total = 0.0
        self.stall_spans: list = []
        # fault "descheduled at a synchronisation call": the thread that makes the n-th synchronisation call of the run
        # (Event.set/clear/wait, lock acquire, queue and socket operations) is frozen for a short while just before it -
        # long enough for a message of the peer or a timer to arrive inside a check-then-act window
        self.sync_stall_cfg = sched_cfg.get("sync_stall")
        self.sync_ops = 0
        self.sync_stall_at: dict = {}
        if self.sync_stall_cfg:
            c = self.sync_stall_cfg
            for _ in range(c.get("n", 1)):
                self.sync_stall_at[self.rng.randrange(1, c.get("horizon", 500) + 1)] = self.rng.choice(
                    c.get("durs", [0.002, 0.03]))
        self.tid_counter = 0
        self.spawned = 0
        self.thread_errors: list = []
        self.on_thread_error = None
        self.trace_hook = None  # optional callable(rec, site) for debugging
        self._idents: dict[int, int] = {0: _thread.get_ident()}
        self.root_ident = _thread.get_ident()
        self.app_rng = random.Random(sched_seed ^ 0x5EC5)
        self.net = None
        self.lines: dict = {}

    # ------------------------------------------------------------------ logging
    def log(self, kind, *fields):
        if self.ending:
            return
        self.seq += 1
        item = (self.seq, round(self.now, 6), kind) + fields
        self.digest.update(repr(item).encode())
        if self.keep_events and len(self.events) < self.max_events:
            self.events.append(item)

    def probe(self, name, n=1):
        self.probes[name] = self.probes.get(name, 0) + n

    def fault(self, name, n=1):
        self.faults[name] = self.faults.get(name, 0) + n

    # ------------------------------------------------------------------ threads
    def _new_prio(self):
        return self.rng.random() + 1.0

    def make_root(self):
        rec = Rec(0, "root", "root", None, is_root=True)
        rec.state = RUNNABLE
        rec.prio = -1.0
        self.threads.append(rec)
        self.root = rec
        self.current = rec
        return rec

    def spawn(self, fn, name, role="thread", obj=None):
        if self.ending:
            raise SimKilled()
        if len(self.threads) >= self.limits.max_threads:
            self._abort("thread-cap", f"more than {self.limits.max_threads} live threads")
        self.tid_counter += 1
        self.spawned += 1
        rec = Rec(self.tid_counter, name, role, fn)
        rec.obj = obj
        rec.prio = self._new_prio()
        rec.state = RUNNABLE
        cfg = self.stall_cfg
        if cfg and self.stalls_left > 0 and self.rng.random() < cfg.get("q", 0.15):
            self.stalls_left -= 1
            if "W" in cfg:
                # "woken but not yet running": frozen shortly after one of its first W wake-ups (0 = thread start), where
                # a thread reacts to what woke it (accept returned, data arrived, event set, timer expired)
                rec.stall_wake = self.rng.randrange(0, cfg["W"] + 1)
                rec.stall_off = self.rng.randrange(1, cfg.get("J", 40) + 1)
            else:
                rec.stall_at = self.rng.randrange(1, cfg.get("J", 40) + 1)
            rec.stall_dur = self.rng.choice(cfg.get("durs", [0.05, 0.5, 3.0]))
        self.threads.append(rec)
        with self._live_lock:
            if self._live == 0:
                self._all_done.acquire(False)
            self._live += 1
        _thread.start_new_thread(self._bootstrap, (rec,))
        return rec

    def _bootstrap(self, rec):
        self._idents[rec.tid] = _thread.get_ident()
        rec.baton.acquire()  # wait to be scheduled for the first time
        try:
            if self.ending:
                raise SimKilled()
            rec.fn()
        except SimKilled:
            pass
        except BaseException as exc:  # noqa: BLE001 - reported, never swallowed
            rec.exc = exc
            if not self.ending:
                tb = traceback.format_exc()
                self.thread_errors.append((rec.name, rec.role, repr(exc), tb))
                self.log("thread-exception", rec.role, type(exc).__name__)
        finally:
            self._thread_exit(rec)

    def _thread_exit(self, rec):
        rec.state = DONE
        if not self.ending:
            try:
                self.threads.remove(rec)
            except ValueError:
                pass
            self._idents.pop(rec.tid, None)
            # wake joiners
            self.wake_all(("join", rec))
            nxt = self._pick_after_block()
            self.switches += 1
            self.sched_hash.update(b"%d:%d;" % (self.steps, nxt.tid))
            self.current = nxt
            nxt.baton.release()
        with self._live_lock:
            self._live -= 1
            if self._live == 0:
                try:
                    self._all_done.release()
                except RuntimeError:
                    pass

    # ------------------------------------------------------------------ waiting
    def wake(self, rec, value=True):
        if rec.state == BLOCKED:
            rec.state = RUNNABLE
            rec.wake_value = value
            rec.waiting_on = None
            rec.deadline = None
            rec.wait_gen += 1

    def wake_all(self, key):
        for rec in self.threads:
            if rec.state == BLOCKED and rec.waiting_on == key:
                self.wake(rec, True)

    def waiters(self, key):
        return [rec for rec in self.threads if rec.state == BLOCKED and rec.waiting_on == key]

    def schedule(self, delay, fn, *args):
        """Run fn(*args) in kernel context at now+delay (network deliveries etc.)."""
        self.heap_order += 1
        heapq.heappush(self.heap, (self.now + max(0.0, delay), self.heap_order, "call", (fn, args)))

    def schedule_at(self, t, fn, *args):
        """Run fn(*args) in kernel context at absolute virtual time t (exact: keeps FIFO links FIFO)."""
        self.heap_order += 1
        heapq.heappush(self.heap, (max(t, self.now), self.heap_order, "call", (fn, args)))

    def block(self, key, timeout=None):
        """Block the current thread on `key`; returns the wake value or TIMEOUT."""
        cur = self.current
        if self.ending:
            raise SimKilled()
        if cur.is_root and self.abort is not None:
            raise self.abort
        cur.spin_n = 0
        cur.state = BLOCKED
        cur.waiting_on = key
        cur.wake_value = None
        cur.wait_gen += 1
        cur.blocked_since = self.now
        if timeout is not None:
            cur.deadline = self.now + max(0.0, timeout)
            self.heap_order += 1
            heapq.heappush(self.heap, (cur.deadline, self.heap_order, "deadline", (cur, cur.wait_gen)))
        else:
            cur.deadline = None
        self.steps += 1
        nxt = self._pick_after_block()
        self._switch_to(nxt)
        return cur.wake_value

    def _pick_after_block(self):
        """Choose the next thread when the current one cannot continue; advances the clock."""
        while True:
            cands = [r for r in self.threads if r.state == RUNNABLE and not r.settling]
            if cands:
                return self._choose(cands, voluntary=True)
            root = self.root
            if root.state == RUNNABLE and root.settling:
                return root
            if not self._advance_clock():
                # nothing runnable and nothing scheduled: everybody is blocked for ever
                self._abort_locked("quiescent-blocked", "no runnable thread and no pending deadline")
                return self.root

    def _advance_clock(self):
        while self.heap:
            t, _o, kind, payload = heapq.heappop(self.heap)
            if kind == "deadline":
                rec, gen = payload
                if rec.state != BLOCKED or rec.wait_gen != gen:
                    continue
                if t > self.now:
                    self.now = t
                self._check_vtime()
                self.wake(rec, TIMEOUT)
                return True
            fn, args = payload
            if t > self.now:
                self.now = t
            self._check_vtime()
            fn(*args)
            if any(r.state == RUNNABLE for r in self.threads):
                return True
        return False

    def _fire_due(self):
        """Run every scheduled event / expired deadline whose time has come (called at yield points)."""
        n = 0
        while self.heap and self.heap[0][0] <= self.now and n < 64:
            _t, _o, kind, payload = heapq.heappop(self.heap)
            n += 1
            if kind == "deadline":
                rec, gen = payload
                if rec.state == BLOCKED and rec.wait_gen == gen:
                    self.wake(rec, TIMEOUT)
            else:
                fn, args = payload
                fn(*args)
        if n:
            self.probe("event_during_activity", n)

    def _check_vtime(self):
        if self.now > self.limits.max_vtime and self.abort is None:
            self._abort_locked("vtime-cap", f"virtual time {self.now:.1f}s")

    def _abort_locked(self, kind, detail):
        """Record an abort; the root thread is made runnable and raises it."""
        if self.abort is None:
            self.abort = SimAbort(kind, detail)
        root = self.root
        if root.state == BLOCKED:
            self.wake(root, ("abort",))
        # make sure the root is picked next
        root.prio = 1e9
        root.settling = False

    def _abort(self, kind, detail):
        self._abort_locked(kind, detail)
        if self.current is self.root:
            raise self.abort
        self._switch_to(self.root)

    def _switch_to(self, nxt):
        cur = self.current
        if nxt is cur:
            if cur.is_root and self.abort is not None:
                raise self.abort
            return
        self.switches += 1
        self.sched_hash.update(b"%d:%d;" % (self.steps, nxt.tid))
        self.current = nxt
        nxt.baton.release()
        cur.baton.acquire()
        if self.ending and not cur.is_root:
            raise SimKilled()
        if cur.is_root and self.abort is not None:
            raise self.abort

    # ------------------------------------------------------------------ scheduling
    def _choose(self, cands, voluntary):
        if len(cands) == 1:
            return cands[0]
        pol = self.policy
        if pol == "pct":
            best = cands[0]
            for r in cands:
                if r.prio > best.prio:
                    best = r
            return best
        if pol == "rr":
            cur = self.current
            later = [r for r in cands if r.tid > cur.tid]
            return later[0] if later else cands[0]
        return cands[self.rng.randrange(len(cands))]

    def yield_point(self, site=None, sync=None):
        """A pre-emption point of the current thread."""
        cur = self.current
        if cur.is_root:
            if self.abort is not None:
                raise self.abort
            return
        if self.ending:
            raise SimKilled()
        self.steps += 1
        cur.steps += 1
        if self.steps > self.limits.max_steps:
            self._abort("step-cap", f"{self.steps} kernel steps")
        if self.step_cost:
            self.now += self.step_cost
        if self.heap and self.heap[0][0] <= self.now:
            self._fire_due()   # events that are due (zero-latency deliveries, expired timers) land mid-activity
        if cur.stall_wake is not None:
            if cur.wait_gen == cur.stall_wake:
                cur.since_wake += 1
                if cur.since_wake >= cur.stall_off:
                    cur.stall_wake = None
                    cur.stall_at = 0
            elif cur.wait_gen > cur.stall_wake:
                cur.stall_wake = None
        if cur.stall_at is not None and cur.steps >= cur.stall_at:
            cur.stall_at = None
            self.stalled_total += cur.stall_dur
            self.stall_spans.append((self.now, self.now + cur.stall_dur))
            self.fault("thread_stalled")
            self.log("stall", cur.role, cur.stall_dur)
            self.block(("stall", cur.tid), cur.stall_dur)
            return
        if self.sync_stall_at and (site is None if sync is None else sync):
            self.sync_ops += 1
            dur = self.sync_stall_at.pop(self.sync_ops, None)
            if dur is not None:
                self.stalled_total += dur
                self.stall_spans.append((self.now, self.now + dur))
                self.fault("sync_stall")
                self.log("sync-stall", cur.role, dur)
                self.block(("stall", cur.tid), dur)
                return
        root = self.root
        if root.step_wake is not None and self.steps >= root.step_wake and root.state == BLOCKED:
            root.step_wake = None
            self.wake(root, ("steps",))
            self._switch_to(root)
            return
        # spin detection: same one or two sites over and over without blocking
        if site is not None:
            if site == cur.spin_a or site == cur.spin_b:
                cur.spin_n += 1
                if cur.spin_n > self.limits.spin_limit:
                    cur.spin_n = 0
                    self.probe("spin_yield")
                    others = [r for r in self.threads if r.state == RUNNABLE and r is not cur and not r.settling]
                    if others:
                        self._low_prio -= 1.0
                        cur.prio = self._low_prio
                        self._switch_to(self._choose(others, voluntary=True))
                    else:
                        # nobody else can run: let virtual time pass so that timers fire
                        self.block(("spin", cur.tid), 0.01)
                    return
            else:
                cur.spin_b = cur.spin_a
                cur.spin_a = site
                cur.spin_n = 0
            if self.preempt == "sync":
                return  # line events only feed the spin detector in this mode
        pol = self.policy
        if pol == "sticky":
            return
        if pol == "random":
            if self.rng.random() >= self.p_switch:
                return
            cands = [r for r in self.threads if r.state == RUNNABLE and not r.settling]
            if len(cands) > 1:
                self._switch_to(cands[self.rng.randrange(len(cands))])
            return
        if pol == "pct":
            self.pre_steps += 1
            if self.pre_steps in self.change_points:
                self._low_prio -= 1.0
                cur.prio = self._low_prio
                self.probe("pct_change_point")
            cands = [r for r in self.threads if r.state == RUNNABLE and not r.settling]
            if len(cands) > 1:
                self._switch_to(self._choose(cands, voluntary=False))
            return
        if pol == "rr":
            self._rr_left -= 1
            if self._rr_left <= 0:
                self._rr_left = self.quantum
                cands = [r for r in self.threads if r.state == RUNNABLE and not r.settling]
                if len(cands) > 1:
                    self._switch_to(self._choose(cands, voluntary=False))
            return

    # ------------------------------------------------------------------ root API
    def sleep(self, dt):
        if self.current.is_root and self.abort is not None:
            raise self.abort
        if dt <= 0:
            self.yield_point(("sleep0",))
            return
        self.block(("sleep", self.current.tid), dt)

    def settle(self):
        """Root only: return when no other thread is runnable at the current instant."""
        root = self.root
        assert self.current is root
        if self.abort is not None:
            raise self.abort
        root.settling = True
        try:
            cands = [r for r in self.threads if r.state == RUNNABLE and not r.settling]
            if cands:
                self._switch_to(self._choose(cands, voluntary=True))
        finally:
            root.settling = False
        if self.abort is not None:
            raise self.abort

    def run_others(self, nsteps, max_dt=None):
        """Root only: let the rest of the system run `nsteps` kernel steps, then resume the root."""
        root = self.root
        assert self.current is root
        root.step_wake = self.steps + nsteps
        val = self.block(("steps", 0), max_dt)
        root.step_wake = None
        return val

    def focus(self, n=1):
        """Root only: the harness is about to create concurrent activity (it just injected stimuli for several threads).
        Under PCT, draw `n` additional priority change points within the next few steps, so that the threads that react
        are pre-empted inside their reaction and not somewhere in the long idle stretches of the run.  The window is
        drawn from the schedule seed; other policies are unaffected."""
        if self.policy != "pct" or self.focus_left <= 0:
            return
        self.focus_left -= 1
        h = self.rng.choice((5, 15, 50, 150) if self.preempt == "sync" else (20, 60, 200, 600, 2000))
        for _ in range(n):
            self.change_points.add(self.pre_steps + self.rng.randrange(1, h))
        self.probe("pct_focus")

    def advance(self, dt):
        self.sleep(dt)
        self.settle()

    def stalled_now(self):
        """True while some thread is frozen by a stall fault."""
        return any(r.state == BLOCKED and isinstance(r.waiting_on, tuple) and r.waiting_on and r.waiting_on[0] == "stall"
                   for r in self.threads)

    def stalled_within(self, t0, t1):
        """Virtual seconds during [t0, t1] in which some thread was frozen by the stall fault."""
        return sum(max(0.0, min(t1, e) - max(t0, s)) for s, e in self.stall_spans)

    # ------------------------------------------------------------------ end of run
    def finish(self, real_timeout=20.0):
        """Root only: kill every other thread and wait until they are gone."""
        assert self.current is self.root
        self.ending = True
        for rec in self.threads:
            if rec is not self.root and rec.state != DONE:
                try:
                    rec.baton.release()
                except RuntimeError:
                    pass
        if self._live > 0:
            ok = self._all_done.acquire(True, real_timeout)
            if not ok:
                raise HarnessError("simulated threads did not terminate after the run ended: "
                                   + ", ".join(r.name for r in self.threads if r.state != DONE and not r.is_root))
            self._all_done.release()

    def blocked_report(self):
        """For every live non-root thread: role, state, waiting key and qualified stack (no line numbers)."""
        out = []
        frames = sys._current_frames()  # noqa: SLF001
        idents = getattr(self, "_idents", {})
        for rec in self.threads:
            if rec.is_root or rec.state == DONE:
                continue
            stack = []
            fr = frames.get(idents.get(rec.tid))
            while fr is not None:
                fn = fr.f_code.co_filename
                if "/secsgem/" in fn:
                    stack.append(fr.f_code.co_qualname)
                fr = fr.f_back
            out.append({"role": rec.role, "name": rec.name, "state": rec.state,
                        "waiting_on": _key_str(rec.waiting_on), "stack": stack[::-1]})
        return out


def _key_str(key):
    if key is None:
        return None
    if isinstance(key, tuple):
        return str(key[0])
    return type(key).__name__

"""Independent reference codecs written from the SEMI standards (E5 items, E37 frames, E4 blocks).

Nothing here imports secsgem.  Used to build peer traffic and to decode everything on the wire.
"""

from __future__ import annotations

import struct

# --------------------------------------------------------------------------- E37 (HSMS)
DATA, SELECT_REQ, SELECT_RSP, DESELECT_REQ, DESELECT_RSP, LINKTEST_REQ, LINKTEST_RSP, REJECT_REQ, SEPARATE_REQ = (
    0, 1, 2, 3, 4, 5, 6, 7, 9)
STYPE_NAMES = {0: "Data", 1: "Select.req", 2: "Select.rsp", 3: "Deselect.req", 4: "Deselect.rsp",
               5: "Linktest.req", 6: "Linktest.rsp", 7: "Reject.req", 9: "Separate.req"}


class Frame:
    """One HSMS message: 4-byte length, 10-byte header, body."""

    __slots__ = ("session", "w", "stream", "function", "ptype", "stype", "system", "body", "t", "seq", "b2", "b3")

    def __init__(self, session=0, w=False, stream=0, function=0, ptype=0, stype=0, system=0, body=b""):
        self.session = session
        self.w = bool(w)
        self.stream = stream
        self.function = function
        self.ptype = ptype
        self.stype = stype
        self.system = system
        self.body = bytes(body)
        self.t = None
        self.seq = None

    def encode(self) -> bytes:
        b2 = (0x80 if self.w else 0) | (self.stream & 0x7F)
        hdr = struct.pack(">HBBBBL", self.session & 0xFFFF, b2, self.function & 0xFF, self.ptype & 0xFF,
                          self.stype & 0xFF, self.system & 0xFFFFFFFF)
        return struct.pack(">L", 10 + len(self.body)) + hdr + self.body

    @property
    def header_bytes(self) -> bytes:
        return self.encode()[4:14]

    def key(self):
        return (self.session, self.w, self.stream, self.function, self.ptype, self.stype, self.system, self.body)

    def short(self):
        if self.stype == 0:
            return f"S{self.stream}F{self.function}{'W' if self.w else ''}#{self.system:x}[{len(self.body)}]"
        return f"{STYPE_NAMES.get(self.stype, self.stype)}#{self.system:x}" + (
            f"(b2={(0x80 if self.w else 0) | self.stream},b3={self.function})" if self.stype in (2, 4, 7) else "")

    def __repr__(self):
        return "<" + self.short() + ">"


def control(stype, system, session=0xFFFF, b2=0, b3=0):
    return Frame(session=session, w=bool(b2 & 0x80), stream=b2 & 0x7F, function=b3, ptype=0, stype=stype,
                 system=system)


def data(stream, function, w, system, body=b"", session=0):
    return Frame(session=session, w=w, stream=stream, function=function, ptype=0, stype=0, system=system, body=body)


def decode_frame(buf: bytes) -> Frame:
    (length,) = struct.unpack(">L", buf[:4])
    if length < 10 or len(buf) != 4 + length:
        raise ValueError("bad frame length")
    session, b2, b3, ptype, stype, system = struct.unpack(">HBBBBL", buf[4:14])
    return Frame(session, bool(b2 & 0x80), b2 & 0x7F, b3, ptype, stype, system, buf[14:])


class FrameParser:
    """Incremental E37 stream parser."""

    def __init__(self):
        self.buf = bytearray()
        self.frames: list[Frame] = []
        self.error = None
        self.consumed = 0

    def feed(self, chunk: bytes, t=None, seq=None):
        out = []
        self.buf.extend(chunk)
        while self.error is None and len(self.buf) >= 4:
            (length,) = struct.unpack(">L", self.buf[:4])
            if length < 10:
                self.error = f"frame length {length} < 10 at stream offset {self.consumed}"
                break
            if len(self.buf) < 4 + length:
                break
            fr = decode_frame(bytes(self.buf[:4 + length]))
            fr.t, fr.seq = t, seq
            del self.buf[:4 + length]
            self.consumed += 4 + length
            self.frames.append(fr)
            out.append(fr)
        return out

    @property
    def pending(self):
        return len(self.buf)


# --------------------------------------------------------------------------- E5 items
L, B, BOOL, A, J, I8, I1, I2, I4, F8, F4, U8, U1, U2, U4 = (
    0o00, 0o10, 0o11, 0o20, 0o21, 0o30, 0o31, 0o32, 0o34, 0o40, 0o44, 0o50, 0o51, 0o52, 0o54)
_NUM = {I8: ">q", I1: ">b", I2: ">h", I4: ">i", F8: ">d", F4: ">f", U8: ">Q", U1: ">B", U2: ">H", U4: ">I"}
_SIZE = {I8: 8, I1: 1, I2: 2, I4: 4, F8: 8, F4: 4, U8: 8, U1: 1, U2: 2, U4: 4}
FMT_NAMES = {L: "L", B: "B", BOOL: "BOOLEAN", A: "A", J: "J", I8: "I8", I1: "I1", I2: "I2", I4: "I4", F8: "F8",
             F4: "F4", U8: "U8", U1: "U1", U2: "U2", U4: "U4"}


class Item:
    """Decoded E5 item: fmt code and value (list of Items for L, bytes for B, str for A/J, list of numbers/bools)."""

    __slots__ = ("fmt", "value")

    def __init__(self, fmt, value):
        self.fmt = fmt
        self.value = value

    def __eq__(self, other):
        return isinstance(other, Item) and self.fmt == other.fmt and self.value == other.value

    def __repr__(self):
        if self.fmt == L:
            return "<L " + " ".join(repr(v) for v in self.value) + ">"
        return f"<{FMT_NAMES[self.fmt]} {self.value!r}>"

    # convenience accessors used by oracles
    def plain(self):
        """Python value: list for L; for one-element arrays the element; str/bytes as is."""
        if self.fmt == L:
            return [v.plain() for v in self.value]
        if self.fmt in (A, J, B):
            return self.value
        if len(self.value) == 1:
            return self.value[0]
        return list(self.value)

    @property
    def is_empty(self):
        return len(self.value) == 0


def _hdr(fmt, length):
    if length < 0x100:
        return bytes([(fmt << 2) | 1, length])
    if length < 0x10000:
        return bytes([(fmt << 2) | 2]) + struct.pack(">H", length)
    if length < 0x1000000:
        return bytes([(fmt << 2) | 3]) + struct.pack(">L", length)[1:]
    raise ValueError("item too long")


def enc(item: Item) -> bytes:
    f = item.fmt
    if f == L:
        return _hdr(L, len(item.value)) + b"".join(enc(v) for v in item.value)
    if f == B:
        return _hdr(B, len(item.value)) + bytes(item.value)
    if f in (A, J):
        raw = item.value.encode("latin-1") if isinstance(item.value, str) else bytes(item.value)
        return _hdr(f, len(raw)) + raw
    if f == BOOL:
        return _hdr(BOOL, len(item.value)) + bytes(1 if v else 0 for v in item.value)
    raw = b"".join(struct.pack(_NUM[f], v) for v in item.value)
    return _hdr(f, len(raw)) + raw


def ls(*items):
    return Item(L, list(items))


def a(text):
    return Item(A, text)


def b(*vals):
    if len(vals) == 1 and isinstance(vals[0], (bytes, bytearray)):
        return Item(B, bytes(vals[0]))
    return Item(B, bytes(vals))


def boolean(*vals):
    return Item(BOOL, [bool(v) for v in vals])


def num(fmt, *vals):
    return Item(fmt, list(vals))


def u1(*v): return Item(U1, list(v))  # noqa: E704
def u2(*v): return Item(U2, list(v))  # noqa: E704
def u4(*v): return Item(U4, list(v))  # noqa: E704
def u8(*v): return Item(U8, list(v))  # noqa: E704
def i1(*v): return Item(I1, list(v))  # noqa: E704
def i2(*v): return Item(I2, list(v))  # noqa: E704
def i4(*v): return Item(I4, list(v))  # noqa: E704
def i8(*v): return Item(I8, list(v))  # noqa: E704
def f4(*v): return Item(F4, list(v))  # noqa: E704
def f8(*v): return Item(F8, list(v))  # noqa: E704


class DecodeError(ValueError):
    pass


def dec(buf: bytes, pos: int = 0, depth: int = 0):
    """Decode one item at pos; returns (Item, next_pos)."""
    if depth > 64:
        raise DecodeError("nesting too deep")
    if pos >= len(buf):
        raise DecodeError("truncated item header")
    fb = buf[pos]
    fmt, nlb = fb >> 2, fb & 3
    if nlb == 0:
        raise DecodeError("zero length bytes")
    if fmt not in FMT_NAMES:
        raise DecodeError(f"unknown format code {fmt:o}")
    if pos + 1 + nlb > len(buf):
        raise DecodeError("truncated length bytes")
    length = int.from_bytes(buf[pos + 1:pos + 1 + nlb], "big")
    pos += 1 + nlb
    if fmt == L:
        items = []
        for _ in range(length):
            it, pos = dec(buf, pos, depth + 1)
            items.append(it)
        return Item(L, items), pos
    if pos + length > len(buf):
        raise DecodeError("truncated item data")
    raw = bytes(buf[pos:pos + length])
    pos += length
    if fmt == B:
        return Item(B, raw), pos
    if fmt in (A, J):
        return Item(fmt, raw.decode("latin-1")), pos
    if fmt == BOOL:
        return Item(BOOL, [x != 0 for x in raw]), pos
    size = _SIZE[fmt]
    if length % size:
        raise DecodeError("length not a multiple of the element size")
    vals = [struct.unpack(_NUM[fmt], raw[i:i + size])[0] for i in range(0, length, size)]
    return Item(fmt, vals), pos


def decode_body(body: bytes):
    """Decode a message body: None for an empty body, else exactly one item spanning the whole body."""
    if len(body) == 0:
        return None
    it, pos = dec(body, 0)
    if pos != len(body):
        raise DecodeError(f"{len(body) - pos} trailing bytes after the item")
    return it


# --------------------------------------------------------------------------- E4 (SECS-I)
ENQ, EOT, ACK, NAK = 0x05, 0x04, 0x06, 0x15


class Block:
    __slots__ = ("device", "r", "w", "stream", "function", "e", "block", "system", "data", "t", "seq")

    def __init__(self, device=0, r=False, w=False, stream=0, function=0, e=True, block=1, system=0, data=b""):
        self.device = device
        self.r = bool(r)
        self.w = bool(w)
        self.stream = stream
        self.function = function
        self.e = bool(e)
        self.block = block
        self.system = system
        self.data = bytes(data)
        self.t = None
        self.seq = None

    def header(self) -> bytes:
        return struct.pack(">HBBHL", (0x8000 if self.r else 0) | (self.device & 0x7FFF),
                           (0x80 if self.w else 0) | (self.stream & 0x7F), self.function & 0xFF,
                           (0x8000 if self.e else 0) | (self.block & 0x7FFF), self.system & 0xFFFFFFFF)

    def encode(self) -> bytes:
        payload = self.header() + self.data
        if len(self.data) > 244:
            raise ValueError("more than 244 data bytes")
        return bytes([len(payload)]) + payload + struct.pack(">H", sum(payload) & 0xFFFF)

    def key(self):
        return (self.device, self.r, self.w, self.stream, self.function, self.e, self.block, self.system, self.data)

    def __repr__(self):
        return (f"<blk S{self.stream}F{self.function}{'W' if self.w else ''} dev={self.device} r={int(self.r)} "
                f"#{self.system:x} n={self.block}{'E' if self.e else ''} [{len(self.data)}]>")


def decode_block(raw: bytes):
    """Decode length byte + payload + checksum.  Returns (Block, checksum_ok)."""
    n = raw[0]
    if n < 10 or n > 254 or len(raw) != n + 3:
        raise ValueError("bad block length")
    payload = raw[1:1 + n]
    (cks,) = struct.unpack(">H", raw[1 + n:3 + n])
    w0, b2, b3, w4, system = struct.unpack(">HBBHL", payload[:10])
    blk = Block(w0 & 0x7FFF, bool(w0 & 0x8000), bool(b2 & 0x80), b2 & 0x7F, b3, bool(w4 & 0x8000), w4 & 0x7FFF,
                system, payload[10:])
    return blk, (sum(payload) & 0xFFFF) == cks


def split_message(device, r, w, stream, function, system, body: bytes):
    """E4 block split: <=244 data bytes per block, numbered from 1, E-bit on the last."""
    chunks = [body[i:i + 244] for i in range(0, len(body), 244)] or [b""]
    return [Block(device, r, w, stream, function, i == len(chunks) - 1, i + 1, system, c)
            for i, c in enumerate(chunks)]

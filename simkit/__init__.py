"""simkit: deterministic simulation of threaded Python code (see /verif/DESIGN.md)."""

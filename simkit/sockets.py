"""Simulated TCP: SimNet, SimSocket, select().  Model of what the real Tcp*Connection classes use.

Per direction the byte stream is FIFO, never lost, duplicated or reordered (it is TCP).  Delivery times are
monotone per direction.  A finite send buffer gives short writes and EAGAIN.  See DESIGN.md §3.4.
"""

from __future__ import annotations

import errno
import socket as _real_socket
import types
import weakref

from .facades import K
from .kernel import TIMEOUT


class SimNet:
    """All simulated hosts of one run."""

    def __init__(self, kernel, rng, latency=0.0005, sndbuf=65536, short_write_p=0.0, max_segment=None,
                 jitter=0.0, connect_delay=0.001, eagain_p=0.0, coalesce=0.0):
        self.kernel = kernel
        self.rng = rng
        self.latency = latency
        self.jitter = jitter
        self.sndbuf = sndbuf
        self.short_write_p = short_write_p
        self.eagain_p = eagain_p
        self.max_segment = max_segment
        self.connect_delay = connect_delay
        # delivery instants are rounded up to multiples of this quantum: what is sent within one quantum reaches the
        # receiver in one piece (TCP coalescing: several messages per recv()), in order
        self.coalesce = coalesce
        self.listeners: dict = {}
        self.conn_count = 0
        self.taps: list = []  # callables(direction_label, conn_id, bytes)
        self.refuse_all = False
        self.hard_errors: list = []   # names of the threads in which send() raised EPIPE/ECONNRESET
        kernel.net = self

    def listener(self, key):
        ref = self.listeners.get(key)
        return None if ref is None else ref()

    def delay(self):
        d = self.latency + self.rng.random() * self.jitter if self.jitter else self.latency
        if self.coalesce:
            q = self.coalesce
            now = self.kernel.now
            d = (int((now + d) / q) + 1) * q - now
        return d


def _err(code, text=None):
    return OSError(code, text or errno.errorcode.get(code, str(code)))


class SimSocket:
    """Stream socket on a SimNet (blocking by default, like the real one)."""

    def __init__(self, family=_real_socket.AF_INET, type=_real_socket.SOCK_STREAM, proto=0, fileno=None, *, _net=None):
        k = K()
        self._net: SimNet = _net or k.net
        self._fd = 3  # any non-negative number
        self._blocking = True
        self._listening = False
        self._accept_q: list = []
        self._addr = None
        self._peer: SimSocket | None = None
        self._rx = bytearray()
        self._rx_eof = False
        self._rx_rst = False
        self._tx_broken = False  # peer gone: sends fail
        self._inflight = 0  # bytes accepted by send() and not yet read by the peer
        self._last_deliver = 0.0
        self._selectors: list = []
        self._connected = False
        self.conn_id = None
        self.side = None
        self.options: dict = {}
        self.sent_total = 0
        # harness-side hooks (run in kernel context, must not block)
        self.on_bytes = None
        self.on_eof = None
        self.on_accept = None

    # -- helpers
    def _notify(self):
        k = self._net.kernel
        if self._selectors:
            for rec in list(self._selectors):
                k.wake(rec, True)
        k.wake_all(self)

    def _check_open(self):
        if self._fd < 0:
            raise _err(errno.EBADF, "Bad file descriptor")

    def fileno(self):
        return self._fd

    # -- configuration
    def setsockopt(self, level, opt, value):
        self._check_open()
        self.options[(level, opt)] = value

    def getsockopt(self, level, opt):
        return self.options.get((level, opt), 0)

    def setblocking(self, flag):
        self._check_open()
        self._blocking = bool(flag)

    def settimeout(self, t):
        self._blocking = t is None or t > 0

    def getpeername(self):
        if self._peer is None:
            raise _err(errno.ENOTCONN)
        return ("127.0.0.1", 40000)

    def getsockname(self):
        return self._addr or ("0.0.0.0", 0)

    # -- server side
    def bind(self, addr):
        self._check_open()
        key = (str(addr[0]), int(addr[1]))
        cur = self._net.listener(key)
        if cur is not None and cur._fd >= 0 and cur is not self:
            raise _err(errno.EADDRINUSE, "Address already in use")
        self._addr = key

    def listen(self, backlog=1):
        self._check_open()
        self._listening = True
        self._backlog = max(1, backlog)
        # weak reference: like a real socket object, a listening socket that nobody references any more is closed by
        # CPython's reference counting (secsgem relies on that when a server thread ends without closing its socket)
        self._net.listeners[self._addr] = weakref.ref(self)

    def accept(self):
        k = K()
        k.yield_point()
        self._check_open()
        while not self._accept_q:
            if not self._blocking:
                raise BlockingIOError(errno.EAGAIN, "Resource temporarily unavailable")
            k.block(self, None)
            self._check_open()
        sock = self._accept_q.pop(0)
        return sock, ("127.0.0.1", 40000 + sock.conn_id)

    # -- client side
    def connect(self, addr):
        k = K()
        k.yield_point()
        self._check_open()
        net = self._net
        key = (str(addr[0]), int(addr[1]))
        if net.connect_delay:
            k.sleep(net.connect_delay)
        lst = net.listener(key)
        if net.refuse_all or lst is None or lst._fd < 0 or not lst._listening or len(lst._accept_q) >= lst._backlog + 1:
            k.fault("connect_refused")
            raise ConnectionRefusedError(errno.ECONNREFUSED, "Connection refused")
        net.conn_count += 1
        other = SimSocket(_net=net)
        other._peer = self
        self._peer = other
        self._connected = other._connected = True
        self.conn_id = other.conn_id = net.conn_count
        self.side = "client"
        other.side = "server"
        k.log("net-connect", self.conn_id)
        if lst.on_accept is not None:
            lst.on_accept(other)
        else:
            lst._accept_q.append(other)
            lst._notify()

    # -- data
    def send(self, data, flags=0):
        k = K()
        k.yield_point()
        self._check_open()
        if not self._connected:
            raise _err(errno.ENOTCONN, "Socket is not connected")
        if self._tx_broken or self._rx_rst:
            k.fault("epipe")
            net_ = self._net
            net_.hard_errors.append(k.current.name)
            raise BrokenPipeError(errno.EPIPE, "Broken pipe")
        peer = self._peer
        net = self._net
        while True:
            space = net.sndbuf - self._inflight
            if space > 0:
                break
            if not self._blocking:
                k.fault("eagain")
                raise BlockingIOError(errno.EAGAIN, "Resource temporarily unavailable")
            k.block(self, None)
            self._check_open()
        if net.eagain_p and not self._blocking and net.rng.random() < net.eagain_p:
            # spurious readiness: select() said writable, send() still would block (legal for non-blocking sockets)
            k.fault("eagain")
            raise BlockingIOError(errno.EAGAIN, "Resource temporarily unavailable")
        n = min(space, len(data))
        if n > 1 and net.short_write_p and net.rng.random() < net.short_write_p:
            n = net.rng.randrange(1, n)
            k.fault("short_write_forced")
        if n < len(data):
            k.fault("short_write")
        chunk = bytes(data[:n])
        self._inflight += n
        self.sent_total += n
        for tap in net.taps:
            tap(self.side, self.conn_id, chunk)
        if peer._fd < 0 or peer._rx_eof_local_closed():
            # peer already closed: bytes are dropped, the connection is now reset for us
            self._tx_broken = True
            self._inflight -= n
            return n
        seg = net.max_segment
        if seg and n > seg and peer.on_bytes is None:
            # the stream reaches the receiver in several TCP segments (cut points chosen by the seeded net PRNG)
            pos = 0
            while pos < n:
                m = min(n - pos, net.rng.randrange(1, seg + 1))
                t = max(self._last_deliver, k.now + net.delay())
                self._last_deliver = t
                k.schedule_at(t, self._deliver, peer, chunk[pos:pos + m])
                pos += m
                k.fault("segmented_delivery")
            return n
        t = max(self._last_deliver, k.now + net.delay())
        self._last_deliver = t
        k.schedule_at(t, self._deliver, peer, chunk)
        return n

    def sendall(self, data, flags=0):
        view = memoryview(bytes(data))
        while len(view):
            n = self.send(view)
            view = view[n:]

    def _rx_eof_local_closed(self):
        return self._fd < 0

    def _deliver(self, peer, chunk):
        if peer._fd < 0:
            self._inflight -= len(chunk)
            self._tx_broken = True
            self._notify()
            return
        if peer.on_bytes is not None:
            self._inflight -= len(chunk)
            self._notify()
            peer.on_bytes(chunk)
            return
        peer._rx.extend(chunk)
        peer._notify()

    def inject(self, data, delay=None):
        """Harness only: send without blocking, yielding or buffer limit (FIFO with everything sent before)."""
        if self._fd < 0 or self._peer is None:
            return False
        k = self._net.kernel
        d = self._net.delay() if delay is None else delay
        t = max(self._last_deliver, k.now + d)
        self._last_deliver = t
        k.schedule_at(t, self._deliver_injected, self._peer, bytes(data))
        return True

    def _deliver_injected(self, peer, chunk):
        if peer._fd < 0:
            return
        peer._rx.extend(chunk)
        peer._notify()

    def recv(self, bufsize, flags=0):
        k = K()
        k.yield_point()
        self._check_open()
        while True:
            if self._rx:
                n = min(bufsize, len(self._rx))
                data = bytes(self._rx[:n])
                del self._rx[:n]
                peer = self._peer
                if peer is not None:
                    peer._inflight -= n
                    peer._notify()
                return data
            if self._rx_rst:
                raise ConnectionResetError(errno.ECONNRESET, "Connection reset by peer")
            if self._rx_eof:
                return b""
            if not self._blocking:
                raise BlockingIOError(errno.EAGAIN, "Resource temporarily unavailable")
            k.block(self, None)
            self._check_open()

    def pending(self):
        return len(self._rx)

    # -- teardown
    def shutdown(self, how):
        self._check_open()
        if self._listening:
            return
        if not self._connected:
            raise _err(errno.ENOTCONN, "Transport endpoint is not connected")
        self._send_fin()

    def _send_fin(self, rst=False):
        peer = self._peer
        if peer is None:
            return
        k = self._net.kernel
        t = max(self._last_deliver, k.now + self._net.delay())
        self._last_deliver = t
        k.schedule_at(t, self._deliver_fin, peer, rst)

    def _deliver_fin(self, peer, rst):
        if rst:
            peer._rx_rst = True
            peer._rx.clear()
        else:
            peer._rx_eof = True
        peer._tx_broken = peer._tx_broken or rst
        peer._notify()
        if peer.on_eof is not None and peer._fd >= 0:
            peer.on_eof(rst)

    def close(self):
        if self._fd < 0:
            return
        self._fd = -1
        if self._listening:
            if self._net.listener(self._addr) is self:
                del self._net.listeners[self._addr]
            # connections waiting in the accept queue are reset
            for s in self._accept_q:
                s._fd = -1
                s._send_fin(rst=True)
            self._accept_q.clear()
            return
        if self._connected:
            self._send_fin(rst=False)

    def reset(self):
        """Harness only: abortive close (RST)."""
        if self._fd < 0:
            return
        self._fd = -1
        self._send_fin(rst=True)

    def detach(self):
        return self._fd

    def __del__(self):
        # garbage collected while open: CPython closes the descriptor
        try:
            if self._fd >= 0 and self._listening and not self._net.kernel.ending:
                self._net.kernel.probe("listening_socket_closed_by_gc")
                self.close()
        except Exception:  # noqa: BLE001
            pass

    def __enter__(self):
        return self

    def __exit__(self, *a):
        self.close()


def sim_select(rlist, wlist, xlist, timeout=None):
    k = K()
    k.yield_point()
    deadline = None if timeout is None else k.now + timeout
    me = k.current
    while True:
        r, w = [], []
        for s in rlist:
            if s._fd < 0:
                raise ValueError("file descriptor cannot be a negative integer (-1)")
            if s._rx or s._rx_eof or s._rx_rst or s._accept_q:
                r.append(s)
        for s in wlist:
            if s._fd < 0:
                raise ValueError("file descriptor cannot be a negative integer (-1)")
            if s._connected and (s._net.sndbuf - s._inflight > 0 or s._tx_broken or s._rx_rst):
                w.append(s)
        for s in xlist:
            if s._fd < 0:
                raise ValueError("file descriptor cannot be a negative integer (-1)")
        if r or w:
            return r, w, []
        rem = None if deadline is None else deadline - k.now
        if rem is not None and rem <= 0:
            return [], [], []
        socks = []
        for s in list(rlist) + list(wlist):
            if me not in s._selectors:
                s._selectors.append(me)
                socks.append(s)
        try:
            k.block(("select", me.tid), rem)
        finally:
            for s in socks:
                if me in s._selectors:
                    s._selectors.remove(me)


class SocketFacade(types.ModuleType):
    def __init__(self):
        super().__init__("socket")
        self.socket = SimSocket
        for name in ("AF_INET", "AF_INET6", "SOCK_STREAM", "SOL_SOCKET", "SO_KEEPALIVE", "SO_REUSEADDR", "SHUT_RDWR",
                     "SHUT_RD", "SHUT_WR", "IPPROTO_TCP", "TCP_NODELAY", "error", "timeout", "gaierror", "herror",
                     "SO_SNDBUF", "SO_RCVBUF"):
            setattr(self, name, getattr(_real_socket, name))


class SelectFacade(types.ModuleType):
    def __init__(self):
        super().__init__("select")
        self.select = sim_select
        self.error = OSError


socket_facade = SocketFacade()
select_facade = SelectFacade()

"""Batch runner: seeds -> plans -> simulated runs on all cores; violations, minimisation, replay, evidence."""

from __future__ import annotations

import concurrent.futures as cf
import faulthandler
import hashlib
import importlib
import json
import multiprocessing as mp
import os
import random
import sys
import time
import traceback

VERIF = os.path.dirname(os.path.dirname(os.path.abspath(__file__)))
KNOWN_FILE = os.path.join(VERIF, "known_findings.json")
RUN_WALL_LIMIT = float(os.environ.get("VERIF_RUN_WALL_LIMIT", "120"))


def load_scenario(prop):
    if VERIF not in sys.path:
        sys.path.insert(0, VERIF)
    return importlib.import_module("scenarios." + prop.lower())


def derive_seed(base, prop, tier, index):
    h = hashlib.blake2b(f"{base}:{prop}:{tier}:{index}".encode(), digest_size=8).digest()
    return int.from_bytes(h, "big") >> 1


def make_plan(scn, prop, tier, base, index):
    seed = derive_seed(base, prop, tier, index)
    plan = scn.gen_plan(random.Random(seed), tier, index)
    plan["seed"] = seed
    plan["index"] = index
    return plan


def _abstract_hash(x):
    return hashlib.blake2b(json.dumps(x, sort_keys=True, default=str).encode(), digest_size=8).hexdigest()


def _work(args):
    prop, tier, base, start, count, deadline, recheck_every = args
    from . import sim as S

    scn = load_scenario(prop)
    out = {
        "runs": 0, "steps": 0, "switches": 0, "vtime": 0.0, "threads": 0, "probes": {}, "faults": {},
        "nontrivial": 0, "abstract": set(), "sched": set(), "policies": {}, "outcomes": {}, "violations": [],
        "harness": [], "samples": [], "nondeterministic": [], "thread_errors": {}, "skipped": 0,
    }
    for i in range(start, start + count):
        if time.time() > deadline:
            out["skipped"] += start + count - i
            break
        faulthandler.dump_traceback_later(RUN_WALL_LIMIT, exit=True)
        plan = None
        try:
            plan = make_plan(scn, prop, tier, base, i)
            res = S.execute(scn, plan)
            if recheck_every and (i % recheck_every == 0 or res["violations"]):
                res2 = S.execute(scn, plan)
                if res2["digest"] != res["digest"]:
                    out["nondeterministic"].append({"index": i, "seed": plan["seed"], "a": res["digest"],
                                                    "b": res2["digest"]})
        except BaseException:  # noqa: BLE001
            out["harness"].append({"index": i, "error": traceback.format_exc(), "plan": plan})
            continue
        finally:
            faulthandler.cancel_dump_traceback_later()
        out["runs"] += 1
        out["steps"] += res["steps"]
        out["switches"] += res["switches"]
        out["vtime"] += res["vtime"]
        out["threads"] += res["threads"]
        for kname, v in res["probes"].items():
            out["probes"][kname] = out["probes"].get(kname, 0) + v
        for kname, v in res["faults"].items():
            out["faults"][kname] = out["faults"].get(kname, 0) + v
        pol = plan.get("sched", {}).get("policy", "?") + "/" + plan.get("sched", {}).get("preempt", "line")
        out["policies"][pol] = out["policies"].get(pol, 0) + 1
        oc = res["outcome"]
        out["outcomes"][oc] = out["outcomes"].get(oc, 0) + 1
        out["sched"].add(res["sched_hash"])
        for (_n, role, err) in res["thread_errors"]:
            key = f"{role}: {err[:80]}"
            out["thread_errors"][key] = out["thread_errors"].get(key, 0) + 1
        if res["nontrivial"]:
            out["nontrivial"] += 1
            out["abstract"].add(_abstract_hash(res["abstract"]))
        if res["harness_error"]:
            out["harness"].append({"index": i, "error": res["harness_error"], "plan": plan})
        if res["violations"]:
            if len(out["violations"]) < 40:
                out["violations"].append({"index": i, "plan": plan, "result": res})
            else:
                out["violations"].append({"index": i, "plan": None,
                                          "result": {"violations": res["violations"], "digest": res["digest"]}})
        elif len(out["samples"]) < 2 and res["nontrivial"]:
            out["samples"].append({"index": i, "plan": _sample_view(scn, plan), "outcome": oc,
                                   "steps": res["steps"], "vtime": res["vtime"], "notes": res["notes"]})
    return out


def _sample_view(scn, plan):
    view = getattr(scn, "sample_view", None)
    if view is not None:
        return view(plan)
    text = json.dumps(plan, default=str)
    if len(text) > 1500:
        return {"seed": plan.get("seed"), "sched": plan.get("sched"), "truncated": text[:1500]}
    return plan


def load_known():
    if not os.path.exists(KNOWN_FILE):
        return []
    with open(KNOWN_FILE) as f:
        return json.load(f).get("findings", [])


def known_open_signatures(prop):
    return {e["signature"]: e for e in load_known() if e.get("property") == prop and e.get("status") == "open"}


def run_batch(prop, tier, base_seed, jobs=None, n_runs=None, wall_budget=None, quiet=False):
    scn = load_scenario(prop)
    budgets = scn.BUDGET[tier]
    n_runs = n_runs or int(os.environ.get("VERIF_RUNS", 0)) or budgets["runs"]
    wall_budget = wall_budget or float(os.environ.get("VERIF_WALL", 0)) or budgets["wall"]
    jobs = jobs or int(os.environ.get("VERIF_JOBS", 0)) or min(16, os.cpu_count() or 1)
    t0 = time.time()
    deadline = t0 + wall_budget
    chunk = max(1, min(budgets.get("chunk", 50), (n_runs + jobs * 4 - 1) // (jobs * 4)))
    tasks = [(prop, tier, base_seed, s, min(chunk, n_runs - s), deadline, budgets.get("recheck_every", 97))
             for s in range(0, n_runs, chunk)]
    agg = None
    dead_workers = 0
    ctx = mp.get_context("fork")
    with cf.ProcessPoolExecutor(max_workers=jobs, mp_context=ctx) as pool:
        futs = {pool.submit(_work, t): t for t in tasks}
        for fut in cf.as_completed(futs):
            try:
                part = fut.result()
            except BaseException as exc:  # noqa: BLE001 - dead worker (watchdog) or pool broken
                dead_workers += 1
                part = None
                t = futs[fut]
                err = {"index": t[3], "error": f"worker died while running indices {t[3]}..{t[3] + t[4] - 1}: {exc!r}",
                       "plan": None}
                if agg is None:
                    agg = _empty()
                agg["harness"].append(err)
                continue
            agg = _merge(agg, part)
    if agg is None:
        agg = _empty()
    agg["wall_s"] = time.time() - t0
    agg["n_requested"] = n_runs
    agg["jobs"] = jobs
    return scn, agg


def _empty():
    return {"runs": 0, "steps": 0, "switches": 0, "vtime": 0.0, "threads": 0, "probes": {}, "faults": {},
            "nontrivial": 0, "abstract": set(), "sched": set(), "policies": {}, "outcomes": {}, "violations": [],
            "harness": [], "samples": [], "nondeterministic": [], "thread_errors": {}, "skipped": 0}


def _merge(a, b):
    if a is None:
        a = _empty()
    for key in ("runs", "steps", "switches", "vtime", "threads", "nontrivial", "skipped"):
        a[key] += b[key]
    for key in ("probes", "faults", "policies", "outcomes", "thread_errors"):
        for n, v in b[key].items():
            a[key][n] = a[key].get(n, 0) + v
    a["abstract"] |= b["abstract"]
    a["sched"] |= b["sched"]
    a["violations"].extend(b["violations"])
    a["harness"].extend(b["harness"])
    a["nondeterministic"].extend(b["nondeterministic"])
    if len(a["samples"]) < 3:
        a["samples"].extend(b["samples"][: 3 - len(a["samples"])])
    return a


# --------------------------------------------------------------------------- minimisation
def _sig_of(res):
    return [v["signature"] for v in res["violations"]]


def minimise(scn, plan, signature, budget=120):
    """Shrink plan lists (scn.SHRINK keys) and the schedule while the same signature still fires."""
    from . import sim as S

    tried = 0

    def fails(p):
        nonlocal tried
        tried += 1
        try:
            r = S.execute(scn, p)
        except Exception:  # noqa: BLE001
            return False
        return signature in _sig_of(r) and not r["harness_error"]

    best = json.loads(json.dumps(plan))
    if not fails(best):
        return plan, 1, False
    # 1. schedule: try the simplest policies first
    for sched in ({"policy": "sticky", "preempt": "sync"}, {"policy": "sticky", "preempt": "line"},
                  {"policy": "rr", "q": 3, "preempt": best.get("sched", {}).get("preempt", "line")}):
        cand = dict(best, sched=dict(sched, seed=best.get("sched", {}).get("seed", 1)))
        if tried < budget and fails(cand):
            best = cand
            break
    # 2. ddmin over list-valued plan keys
    for key in getattr(scn, "SHRINK", ()):
        items = best.get(key)
        if not isinstance(items, list) or len(items) < 2:
            continue
        n = 2
        while len(items) >= 2 and tried < budget:
            size = max(1, len(items) // n)
            reduced = False
            for start in range(0, len(items), size):
                cand_items = items[:start] + items[start + size:]
                cand = dict(best)
                cand[key] = cand_items
                if tried < budget and fails(cand):
                    items = cand_items
                    best = cand
                    n = max(n - 1, 2)
                    reduced = True
                    break
            if not reduced:
                if size == 1:
                    break
                n = min(len(items), n * 2)
    # 3. scenario-specific argument shrinking
    shrink_args = getattr(scn, "shrink_candidates", None)
    if shrink_args is not None:
        progress = True
        while progress and tried < budget:
            progress = False
            for cand in shrink_args(best):
                if tried >= budget:
                    break
                if fails(cand):
                    best = cand
                    progress = True
                    break
    return best, tried, True


def write_replay(prop, plan, res, signature, minimised_from=None, tries=0):
    d = os.path.join(VERIF, "replays", prop)
    os.makedirs(d, exist_ok=True)
    name = hashlib.blake2b(signature.encode(), digest_size=6).hexdigest() + ".json"
    path = os.path.join(d, name)
    viol = [v for v in res["violations"] if v["signature"] == signature]
    doc = {
        "property": prop, "signature": signature, "rule": viol[0]["rule"] if viol else None,
        "detail": viol[0]["detail"] if viol else None, "seed": plan.get("seed"), "plan": plan,
        "expected_digest": res["digest"], "steps": res["steps"], "vtime": res["vtime"],
        "minimised": minimised_from is not None, "minimise_executions": tries,
        "original_plan_size": minimised_from,
        "blocked_threads": res.get("blocked"),
        "replay_cmd": f"./check {prop} --replay {os.path.relpath(path, VERIF)}",
    }
    with open(path, "w") as f:
        json.dump(doc, f, indent=1, default=str)
    return path


def replay(prop, path):
    from . import sim as S

    scn = load_scenario(prop)
    with open(path) as f:
        doc = json.load(f)
    res = S.execute(scn, doc["plan"], keep_events=True)
    sigs = _sig_of(res)
    same_sig = doc["signature"] in sigs
    same_digest = res["digest"] == doc["expected_digest"]
    return doc, res, same_sig, same_digest

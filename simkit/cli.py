"""Command line: ./check <ID> [--tier quick|thorough] [--replay file] | selftest-determinism | setup"""

from __future__ import annotations

import argparse
import json
import os
import sys
import time

from . import runner

VERIF = runner.VERIF


def _size_of(plan, scn):
    return {k: len(plan[k]) for k in getattr(scn, "SHRINK", ()) if isinstance(plan.get(k), list)}


def check(prop, tier, seed):
    scn, agg = runner.run_batch(prop, tier, seed)
    known = runner.known_open_signatures(prop)
    harness_problems = []
    if agg["harness"]:
        harness_problems.append(f"{len(agg['harness'])} harness errors; first: {agg['harness'][0]['error'][-1500:]}")
    if agg["nondeterministic"]:
        harness_problems.append(f"non-deterministic replays: {agg['nondeterministic'][:3]}")
    if agg["runs"] == 0:
        harness_problems.append("no run completed")
    incon = sum(v for k, v in agg["outcomes"].items() if k.startswith("abort:"))
    allowed_incon = getattr(scn, "MAX_INCONCLUSIVE_FRACTION", 0.02)
    if agg["runs"] and incon / agg["runs"] > allowed_incon:
        harness_problems.append(f"{incon}/{agg['runs']} runs inconclusive (caps): {agg['outcomes']}")
    for name in getattr(scn, "REQUIRED_PROBES", {}).get(tier, ()):
        if agg["probes"].get(name, 0) + agg["faults"].get(name, 0) == 0 and agg["runs"] >= 200:
            harness_problems.append(f"required probe '{name}' never fired")
    # group violations by signature
    by_sig: dict = {}
    for v in agg["violations"]:
        for viol in v["result"]["violations"]:
            by_sig.setdefault(viol["signature"], []).append(v)
    new_sigs = [s for s in by_sig if s not in known]
    lines = []
    replay_paths = {}
    min_budget = scn.BUDGET[tier].get("minimise", 120)
    if os.environ.get("VERIF_MINIMISE"):
        min_budget = int(os.environ["VERIF_MINIMISE"])      # tools/eval_seeded.py: many signatures, no need to shrink each
    for sig in sorted(by_sig):
        cases = [c for c in by_sig[sig] if c["plan"] is not None]
        if sig in known:
            lines.append(f"KNOWN-FINDING: property={prop} {sig} :: {known[sig].get('what', '')} "
                         f"(hit in {len(by_sig[sig])} runs)")
            continue
        if not cases:
            continue
        case = min(cases, key=lambda c: len(json.dumps(c["plan"], default=str)))
        plan = case["plan"]
        try:
            best, tries, ok = runner.minimise(scn, plan, sig, budget=min_budget)
            from . import sim as S

            res = S.execute(scn, best)
            if sig not in [x["signature"] for x in res["violations"]]:
                best, res = plan, case["result"]
            path = runner.write_replay(prop, best, res, sig, minimised_from=_size_of(plan, scn), tries=tries)
        except Exception as exc:  # noqa: BLE001
            path = runner.write_replay(prop, plan, case["result"], sig)
            harness_problems.append(f"minimisation failed: {exc!r}")
        replay_paths[sig] = path
        viol = [x for x in case["result"]["violations"] if x["signature"] == sig][0]
        lines.append(f"VIOLATION property={prop} replay={path}")
        lines.append(f"  rule={viol['rule']} signature={sig} runs_hit={len(by_sig[sig])}")
        lines.append(f"  detail: {str(viol['detail'])[:600]}")
    write_evidence(prop, tier, seed, scn, agg, by_sig, known, replay_paths, harness_problems)
    rate = agg["runs"] / max(agg["wall_s"], 1e-9)
    print(f"[{prop} {tier}] seed={seed} runs={agg['runs']}/{agg['n_requested']} wall={agg['wall_s']:.1f}s "
          f"({rate * 3600:.0f} runs/h) steps={agg['steps']} vtime={agg['vtime']:.0f}s "
          f"nontrivial={agg['nontrivial']} distinct={len(agg['abstract'])} schedules={len(agg['sched'])} "
          f"outcomes={agg['outcomes']}")
    print(f"  faults={agg['faults']}")
    print(f"  probes={agg['probes']}")
    if agg["thread_errors"]:
        print(f"  thread_errors={agg['thread_errors']}")
    for ln in lines:
        print(ln)
    for h in harness_problems:
        print("HARNESS-ERROR:", h)
    if new_sigs:
        return 1      # a violation was found and is reported with its replay file (harness problems are printed too)
    if harness_problems:
        return 2
    print(f"OK property={prop} held on everything explored")
    return 0


def write_evidence(prop, tier, seed, scn, agg, by_sig, known, replay_paths, harness_problems):
    ev_meta = getattr(scn, "EVIDENCE", {})
    wall = max(agg["wall_s"], 1e-9)
    samples = list(agg["samples"])
    for sig, path in replay_paths.items():
        samples.append({"violation": sig, "replay": path})
    if not samples:
        samples = [{"note": "no non-trivial run to show"}]
    cov = {
        "evaluations": agg["runs"],
        "distinct_nontrivial": len(agg["abstract"]),
        "rule": ev_meta.get("rule", ""),
        "samples": samples,
        "exhaustive": False,
        "nontrivial_runs": agg["nontrivial"],
        "runs_per_hour": round(agg["runs"] / wall * 3600),
        "seeds_per_hour": round(agg["runs"] / wall * 3600),
        "simulated_seconds_total": round(agg["vtime"], 1),
        "kernel_steps_total": agg["steps"],
        "context_switches_total": agg["switches"],
        "simulated_threads_total": agg["threads"],
        "distinct_schedules": len(agg["sched"]),
        "distinct_schedules_measure": "hash of the sequence (kernel step, thread switched to) over the whole run",
        "faults_fired": agg["faults"],
        "probes": agg["probes"],
        "schedulers": agg["policies"],
        "outcomes": agg["outcomes"],
        "inconclusive": sum(v for k, v in agg["outcomes"].items() if k.startswith("abort:")),
        "runs_requested": agg["n_requested"],
        "runs_skipped_wall_budget": agg["skipped"],
        "jobs": agg["jobs"],
        "real_components": ev_meta.get("real", []),
        "stub_components": ev_meta.get("stub", []),
        "known_findings_hit": {s: len(by_sig[s]) for s in by_sig if s in known},
        "new_violation_signatures": {s: len(by_sig[s]) for s in by_sig if s not in known},
        "thread_exceptions_seen": agg["thread_errors"],
        "harness_problems": harness_problems,
    }
    doc = {
        "property_id": prop, "tier": tier, "seed": int(seed), "level": ev_meta.get("level", "exploration"),
        "coverage": cov, "assumptions": ev_meta.get("assumptions", []), "wall_s": round(agg["wall_s"], 2),
        "violations": sum(len(by_sig[s]) for s in by_sig if s not in known),
    }
    os.makedirs(os.path.join(VERIF, "evidence"), exist_ok=True)
    with open(os.path.join(VERIF, "evidence", f"{prop}.json"), "w") as f:
        json.dump(doc, f, indent=1, default=str)


def main(argv=None):
    ap = argparse.ArgumentParser()
    ap.add_argument("target")
    ap.add_argument("--tier", default=os.environ.get("VERIF_TIER") or "quick")
    ap.add_argument("--replay")
    ap.add_argument("--seed", type=int, default=None)
    ap.add_argument("--verbose", action="store_true")
    a = ap.parse_args(argv)
    seed = a.seed if a.seed is not None else int(os.environ.get("VERIF_SEED") or 20260922)
    if a.target == "selftest-determinism":
        from . import selftest

        return selftest.determinism(seed)
    if a.target == "setup":
        from . import selftest

        return selftest.setup()
    prop = a.target.upper()
    if a.replay:
        doc, res, same_sig, same_digest = runner.replay(prop, a.replay)
        print(json.dumps({"signature": doc["signature"], "reproduced_signature": same_sig,
                          "same_digest": same_digest, "violations": res["violations"], "steps": res["steps"],
                          "vtime": res["vtime"]}, indent=1, default=str))
        if a.verbose:
            for e in res.get("events", []):
                print(e)
            print(json.dumps(res.get("blocked"), indent=1))
            for tb in res.get("thread_tracebacks", []):
                print("THREAD EXCEPTION:\n" + tb)
        if same_sig:
            print(f"VIOLATION property={prop} replay={a.replay}")
            return 1
        print("NOT-REPRODUCED")
        return 3
    if a.tier not in ("quick", "thorough"):
        a.tier = "quick"
    return check(prop, a.tier, seed)


if __name__ == "__main__":
    sys.exit(main())

"""Harness helpers for GEM scenarios: a real GemEquipmentHandler/GemHostHandler over the simulated network and a
scripted GEM peer built on the reference codecs."""

from __future__ import annotations

from . import hsmsenv, refcodec as rc
from .sockets import SimSocket

PEER_SYS_BASE = 0x50000000


class GemPeer:
    """Scripted GEM peer (host when the endpoint is equipment and vice versa) on top of an HsmsPeer."""

    def __init__(self, sim, hp: hsmsenv.HsmsPeer, peer_is_host: bool, id_base=PEER_SYS_BASE):
        self.sim = sim
        self.id_base = id_base
        self.hp = hp
        self.peer_is_host = peer_is_host
        self.inbox: list[rc.Frame] = []          # every data frame written by the endpoint
        self.auto: dict = {}                     # (stream, function) -> callable(frame) -> Frame | None
        self.commack = 0
        self.answer_s1f13 = True
        self._n = 0
        self.install_defaults()
        hp.handlers.append(self._on_frame)

    def install_defaults(self):
        def s1f14(fr):
            if not self.answer_s1f13:
                return None
            mdln = rc.ls() if self.peer_is_host else rc.ls(rc.a("peer"), rc.a("1.0"))
            return rc.data(1, 14, False, fr.system, rc.enc(rc.ls(rc.b(self.commack), mdln)))

        self.auto[(1, 13)] = s1f14
        self.auto[(1, 1)] = lambda fr: rc.data(1, 2, False, fr.system, rc.enc(
            rc.ls() if self.peer_is_host else rc.ls(rc.a("peer"), rc.a("1.0"))))
        self.auto[(6, 11)] = lambda fr: rc.data(6, 12, False, fr.system, rc.enc(rc.b(0)))
        self.auto[(5, 1)] = lambda fr: rc.data(5, 2, False, fr.system, rc.enc(rc.b(0)))

    def _on_frame(self, fr):
        if fr.stype != 0:
            return
        self.inbox.append(fr)
        if fr.w:
            fn = self.auto.get((fr.stream, fr.function))
            if fn is not None:
                reply = fn(fr)
                if reply is not None:
                    self.hp.send(reply)

    def next_system(self):
        self._n += 1
        return self.id_base + self._n

    def send_primary(self, stream, function, item=None, w=True, system=None, raw=None, session=0):
        system = self.next_system() if system is None else system
        body = raw if raw is not None else (b"" if item is None else rc.enc(item))
        fr = rc.data(stream, function, w, system, body, session=session)
        self.hp.send(fr)
        return system

    def replies(self, system):
        return [f for f in self.inbox if f.system == system]

    def request(self, stream, function, item=None, timeout=None, raw=None):
        """Root only: send a W primary and wait for the first data frame carrying its system bytes."""
        system = self.send_primary(stream, function, item, True, raw=raw)
        self.sim.wait_until(lambda: self.replies(system), timeout if timeout is not None else 10)
        r = self.replies(system)
        return r[0] if r else None

    def of(self, stream, function):
        return [f for f in self.inbox if (f.stream, f.function) == (stream, function)]


class GemEnv:
    """One real GEM handler (equipment or host) + the connection bring-up against a scripted peer."""

    def __init__(self, sim, role="equipment", active=False, t3=3.0, t5=1.0, t6=2.0, delay=2, port=5000,
                 handler_factory=None, counter=1000, transport="hsms", line=None, **handler_kw):
        import secsgem.common
        import secsgem.gem
        import secsgem.hsms

        self.sim = sim
        self.role = role
        self.active = active
        self.transport = transport
        self.line = line
        mode = secsgem.hsms.HsmsConnectMode.ACTIVE if active else secsgem.hsms.HsmsConnectMode.PASSIVE
        dtype = secsgem.common.DeviceType.EQUIPMENT if role == "equipment" else secsgem.common.DeviceType.HOST
        if transport == "secsi":
            import secsgem.secsi

            self.settings = secsgem.secsi.SecsISettings(port="SIMA", speed=9600, device_type=dtype, t3=t3,
                                                        establish_communication_timeout=delay)
        else:
            self.settings = secsgem.hsms.HsmsSettings(connect_mode=mode, address="127.0.0.1", port=port,
                                                      device_type=dtype, t3=t3, t5=t5, t6=t6,
                                                      establish_communication_timeout=delay)
        if handler_factory is not None:
            self.handler = handler_factory(self.settings)
        elif role == "equipment":
            self.handler = secsgem.gem.GemEquipmentHandler(self.settings, **handler_kw)
        else:
            self.handler = secsgem.gem.GemHostHandler(self.settings)
        self.proto = self.handler.protocol
        if counter is not None:
            self.proto._system_counter = counter
        if transport == "hsms":
            self.proto._linktest_timeout = 100000
        self.enabled_n = 0
        self.addr = ("127.0.0.1", port)
        self.listener = None
        self.peer: GemPeer | None = None
        self.hp = None
        self.communicating_n = 0
        self.handler.events.handler_communicating += self._on_comm
        self.configure_peer = None

    def _on_comm(self, _):
        self.communicating_n += 1
        self.sim.log("ev-handler-communicating")

    @property
    def comm_state(self):
        return self.handler.communication_state.current.name

    @property
    def conn_state(self):
        if self.transport == "secsi":
            conn = self.proto._connection
            return "CONNECTED_SELECTED" if getattr(conn, "_enabled", False) else "NOT_CONNECTED"
        return self.proto.connection_state.current.name

    def start(self):
        if self.transport == "secsi":
            from . import secsienv

            # the scripted peer sits on the other end of the line before the endpoint opens its port
            hp = secsienv.SecsIHp(self.sim, self.line, "SIMB", peer_is_host=(self.role == "equipment"))
            self._wrap(hp)
            # SerialConnection.enable() busy-waits for its receiver thread: never call it from the root
            self.sim.spawn(self._enable, "app_enable", role="app")
            return
        if self.active:
            self.listener = hsmsenv.PeerListener(self.sim, self.addr, configure=self._accepted)
        self.handler.enable()

    def _enable(self):
        self.handler.enable()
        self.enabled_n += 1

    def _accepted(self, hp):
        hp.auto_select = True
        self._wrap(hp)

    def _wrap(self, hp):
        self.hp = hp
        # system bytes of the scripted peer are unique over all connections of a run (late frames of an old
        # connection can surface on the next one)
        self.peer_no = getattr(self, "peer_no", -1) + 1
        self.peer = GemPeer(self.sim, hp, peer_is_host=(self.role == "equipment"),
                            id_base=PEER_SYS_BASE + 0x10000 * self.peer_no)
        if self.configure_peer is not None:
            self.configure_peer(self.peer)
        return self.peer

    def connect(self, timeout=8, select=True):
        """Root: bring up TCP + HSMS select. Returns the GemPeer or None."""
        sim = self.sim
        if self.transport == "secsi":
            if not sim.wait_until(lambda: self.conn_state == "CONNECTED_SELECTED", timeout):
                return None
            return self.peer
        if self.active:
            old = self.hp
            if not sim.wait_until(lambda: self.hp is not None and self.hp is not old and self.hp.open, timeout):
                return None
        else:
            hp = None
            end = sim.now + timeout
            while hp is None and sim.now < end:
                hp = hsmsenv.connect_peer(sim, self.addr)
                if hp is None:
                    sim.advance(0.2)
            if hp is None:
                return None
            self._wrap(hp)
            sim.wait_until(lambda: self.conn_state != "NOT_CONNECTED", 3)
            if select:
                hp.send(rc.control(rc.SELECT_REQ, 0x5E1EC7))
        if select and not sim.wait_until(lambda: self.conn_state == "CONNECTED_SELECTED", 5):
            return None
        return self.peer

    def establish(self, timeout=10):
        """Root: connect, select and complete the S1F13/S1F14 exchange (peer answers COMMACK 0)."""
        peer = self.connect()
        if peer is None:
            return None
        if not self.sim.wait_until(lambda: self.comm_state == "COMMUNICATING", timeout):
            return None
        self.sim.advance(0.05)
        return peer

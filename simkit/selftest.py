"""Self tests: setup smoke test and determinism (same seed twice -> identical digests)."""

from __future__ import annotations

import concurrent.futures as cf
import glob
import multiprocessing as mp
import os
import random
import subprocess
import sys

from . import runner


def _scenarios():
    out = []
    for p in sorted(glob.glob(os.path.join(runner.VERIF, "scenarios", "c[0-9][0-9].py"))):
        out.append(os.path.basename(p)[:-3].upper())
    return out


def _digests(args):
    prop, base, start, count = args
    from . import sim as S

    scn = runner.load_scenario(prop)
    out = []
    for i in range(start, start + count):
        plan = runner.make_plan(scn, prop, "quick", base, i)
        r = S.execute(scn, plan)
        out.append((i, r["digest"], r["steps"], r["harness_error"]))
    return out


def _batch(prop, base, n, jobs):
    ctx = mp.get_context("fork")
    chunk = max(1, n // (jobs * 2))
    tasks = [(prop, base, s, min(chunk, n - s)) for s in range(0, n, chunk)]
    res = {}
    with cf.ProcessPoolExecutor(max_workers=jobs, mp_context=ctx) as pool:
        for part in pool.map(_digests, tasks):
            for i, d, st, h in part:
                res[i] = (d, st, h)
    return res


def determinism(seed, n=None):
    """Each scenario: n seeds, executed (a) twice on 16 workers, (b) on 1..2 workers, (c) in a fresh interpreter with a
    different PYTHONHASHSEED; all digests must agree."""
    n = n or int(os.environ.get("VERIF_SELFTEST_N", "200"))
    bad = 0
    if os.environ.get("VERIF_SELFTEST_CHILD"):
        prop = os.environ["VERIF_SELFTEST_CHILD"]
        res = _batch(prop, seed, n, 3)
        for i in sorted(res):
            print(i, res[i][0], res[i][1])
        return 0
    for prop in _scenarios():
        a = _batch(prop, seed, n, 16)
        b = _batch(prop, seed, n, 2)
        env = dict(os.environ, VERIF_SELFTEST_CHILD=prop, PYTHONHASHSEED="12345", VERIF_SELFTEST_N=str(n))
        out = subprocess.run([sys.executable, "-c", "import sys; from simkit import cli; sys.exit(cli.main(sys.argv[1:]))",
                              "selftest-determinism", "--seed", str(seed)], env=env, capture_output=True, text=True,
                             cwd=runner.VERIF, timeout=3000)
        c = {}
        for ln in out.stdout.splitlines():
            parts = ln.split()
            if len(parts) == 3 and parts[0].isdigit():
                c[int(parts[0])] = (parts[1], int(parts[2]))
        diffs = [i for i in a if a[i][:2] != b[i][:2] or c.get(i) != a[i][:2]]
        herr = [i for i in a if a[i][2]]
        print(f"[determinism] {prop}: {n} seeds x (16 workers, 2 workers, fresh interpreter PYTHONHASHSEED=12345): "
              f"{len(diffs)} differing, {len(herr)} harness errors")
        if diffs or herr:
            bad += 1
            print("  first differing:", diffs[:5], "harness:", [a[i][2] for i in herr[:2]])
            if out.returncode != 0:
                print(out.stderr[-2000:])
    return 2 if bad else 0


def setup():
    """Offline setup: check interpreter, secsgem import from VERIF_REPO, jsonschema of MANIFEST, tiny determinism run."""
    import json

    from . import sim as S

    S.prepare()
    import secsgem

    print("secsgem from", os.path.dirname(secsgem.__file__))
    try:
        import jsonschema

        with open(os.path.join(runner.VERIF, "MANIFEST.json")) as f:
            man = json.load(f)
        if os.path.exists("/root/.vp/MANIFEST.schema.json"):
            with open("/root/.vp/MANIFEST.schema.json") as f:
                jsonschema.validate(man, json.load(f))
        print("MANIFEST.json valid:", len(man["checks"]), "checks")
    except ImportError:
        print("jsonschema not available, MANIFEST not validated")
    for prop in _scenarios():
        scn = runner.load_scenario(prop)
        for i in range(3):
            plan = runner.make_plan(scn, prop, "quick", 1, i)
            r1 = S.execute(scn, plan)
            r2 = S.execute(scn, plan)
            if r1["digest"] != r2["digest"] or r1["harness_error"]:
                print(f"SETUP-ERROR {prop} index {i}: digests differ or harness error {r1['harness_error']}")
                return 2
    print("setup ok:", ", ".join(_scenarios()))
    return 0

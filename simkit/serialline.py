"""Simulated serial line and a fake `serial.Serial` for the real SerialConnection."""

from __future__ import annotations

import types

from .facades import K
from .kernel import TIMEOUT


class SimLine:
    """Full-duplex byte pipe between port name A and port name B; bytes may be chunked, delayed and corrupted."""

    def __init__(self, kernel, rng, a="SIMA", b="SIMB", delay=0.001, chunker=None):
        self.kernel = kernel
        self.rng = rng
        self.names = (a, b)
        self.ports: dict = {}
        self.delay = delay
        self.chunker = chunker  # callable(direction, data) -> list of (delay, bytes)
        self.taps: list = []
        self.sinks: dict = {}  # port name -> callable(bytes): harness-side receiver (kernel context)
        self.corrupt = None  # callable(direction, offset_in_stream, byte) -> byte
        self.corrupt_write = None  # callable(src, bytes) -> bytes
        self.sent = {a: 0, b: 0}
        self.last_deliver = {a: 0.0, b: 0.0}
        kernel.lines[a] = self
        kernel.lines[b] = self

    def other(self, name):
        return self.names[1] if name == self.names[0] else self.names[0]

    def transmit(self, src, data):
        k = self.kernel
        data = bytes(data)
        base = self.sent[src]
        self.sent[src] += len(data)
        for tap in self.taps:
            tap(src, data)
        if self.corrupt_write is not None:
            data = bytes(self.corrupt_write(src, data))   # fault: what arrives differs from what was written
        if self.corrupt is not None:
            data = bytes(self.corrupt(src, base + i, b) for i, b in enumerate(data))
        pieces = self.chunker(src, data) if self.chunker else [(self.delay, data)]
        for dly, piece in pieces:
            t = max(self.last_deliver[src], k.now + dly)
            self.last_deliver[src] = t
            k.schedule_at(t, self._deliver, self.other(src), piece)

    def _deliver(self, dst, piece):
        sink = self.sinks.get(dst)
        if sink is not None:
            sink(piece)
            return
        port = self.ports.get(dst)
        if port is None or not port.is_open:
            return
        port._rx.extend(piece)
        self.kernel.wake_all(port)


class Serial:
    """The subset of pyserial's Serial that secsgem uses."""

    def __init__(self, port=None, baudrate=9600, timeout=None, **kwargs):
        k = K()
        self.port = port
        self.baudrate = baudrate
        self.timeout = timeout
        lines = getattr(k, "lines", {})
        if port not in lines:
            import serial as _real_serial  # only for the exception type

            raise _real_serial.SerialException(f"could not open port {port}: no such simulated line")
        self._line: SimLine = lines[port]
        self._rx = bytearray()
        self.is_open = True
        self._line.ports[port] = self

    @property
    def in_waiting(self):
        K().yield_point()
        self._check()
        return len(self._rx)

    def _check(self):
        if not self.is_open:
            import serial as _real_serial

            raise _real_serial.PortNotOpenError()

    def read(self, size=1):
        k = K()
        k.yield_point()
        self._check()
        deadline = None if self.timeout is None else k.now + self.timeout
        while len(self._rx) < size:
            rem = None if deadline is None else deadline - k.now
            if rem is not None and rem <= 0:
                break
            k.block(self, rem)
            self._check()
        n = min(size, len(self._rx))
        data = bytes(self._rx[:n])
        del self._rx[:n]
        return data

    def write(self, data):
        k = K()
        k.yield_point()
        self._check()
        self._line.transmit(self.port, data)
        return len(data)

    def flush(self):
        pass

    def reset_input_buffer(self):
        self._rx.clear()

    def close(self):
        self.is_open = False
        k = K()
        k.wake_all(self)


class SerialFacade(types.ModuleType):
    def __init__(self):
        super().__init__("serial")
        self.Serial = Serial
        try:
            import serial as _real_serial

            self.SerialException = _real_serial.SerialException
            self.PortNotOpenError = _real_serial.PortNotOpenError
            self.SerialTimeoutException = _real_serial.SerialTimeoutException
        except ImportError:
            self.SerialException = OSError


serial_facade = SerialFacade()

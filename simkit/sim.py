"""Driver-side API of one simulated run and the function that executes a scenario once."""

from __future__ import annotations

import hashlib
import logging
import os
import random
import sys
import threading as _real_threading
import traceback

from . import facades, kernel as _k, sockets, serialline
from .kernel import HarnessError, Kernel, Limits, SimAbort, SimKilled, TIMEOUT  # noqa: F401

REPO = os.environ.get("VERIF_REPO", "/repo")

DEFAULT_FILES = (
    "secsgem/common/protocol.py", "secsgem/common/protocol_dispatcher.py", "secsgem/common/byte_queue.py",
    "secsgem/common/block_send_info.py", "secsgem/common/tcp_connection.py",
    "secsgem/common/tcp_server_connection.py", "secsgem/common/tcp_client_connection.py",
    "secsgem/common/serial_connection.py", "secsgem/common/state_machine.py",
    "secsgem/hsms/protocol.py", "secsgem/secsi/protocol.py", "secsgem/secs/handler.py",
    "secsgem/gem/handler.py", "secsgem/gem/equipmenthandler.py", "secsgem/gem/hosthandler.py",
    "secsgem/gem/communication_state_machine.py", "secsgem/gem/control_state_machine.py",
    "secsgem/gem/collection_event_capability.py", "secsgem/gem/state_models_capability.py",
    "secsgem/gem/alarm_capability.py", "secsgem/gem/equipment_constants_capability.py",
    "secsgem/gem/status_data_collection_capability.py", "secsgem/gem/remote_control_capability.py",
    "secsgem/gem/data_value_capability.py", "secsgem/gem/clock_capability.py",
)

OPCODE_FUNCTIONS = ("Protocol.get_next_system_counter",)

_prepared = False


def prepare():
    """Once per process: import secsgem from VERIF_REPO, install the facades, enable line events."""
    global _prepared
    if _prepared:
        return
    if REPO not in sys.path:
        sys.path.insert(0, REPO)
    import secsgem

    here = os.path.realpath(os.path.dirname(secsgem.__file__))
    want = os.path.realpath(os.path.join(REPO, "secsgem"))
    if here != want:
        raise HarnessError(f"secsgem imported from {here}, expected {want}")
    logging.disable(logging.CRITICAL)
    facades.install()
    facades.instrument_files(DEFAULT_FILES, OPCODE_FUNCTIONS)
    _prepared = True


class Violation:
    def __init__(self, rule, detail, sig=None, data=None):
        self.rule = rule
        self.detail = detail
        self.sig = sig or rule
        self.data = data

    def as_dict(self):
        return {"rule": self.rule, "signature": self.sig, "detail": self.detail, "data": self.data}


class StopRun(Exception):
    """Raised by Sim.violation(stop=True) to end the scenario at once."""


class Sim:
    """What a scenario sees."""

    def __init__(self, k: Kernel, plan: dict, data_seed: int):
        self.k = k
        self.plan = plan
        self.rng = random.Random(data_seed)  # run-time data choices (network jitter etc.), never the schedule
        self.violations: list[Violation] = []
        self.notes: dict = {}
        self.nontrivial = False
        self.abstract = None

    # time and scheduling
    @property
    def now(self):
        return self.k.now

    @property
    def steps(self):
        return self.k.steps

    def sleep(self, dt):
        self.k.sleep(dt)

    def settle(self):
        self.k.settle()

    def advance(self, dt):
        self.k.advance(dt)

    def run_others(self, n, max_dt=None):
        return self.k.run_others(n, max_dt)

    def focus(self, n=1):
        self.k.focus(n)

    def spawn(self, fn, name, role="harness"):
        t = facades.Thread(target=fn, name=name)
        t.role = role
        t.start()
        self.k.focus(1)     # an application thread starts: concurrency begins here
        return t

    def wait_until(self, pred, timeout, poll=0.05):
        """Root: advance virtual time until pred() holds at a quiescent instant; False on timeout."""
        cfg = self.k.stall_cfg
        if cfg:
            # injected thread stalls may delay whatever is awaited: allow for the largest possible total
            timeout += cfg.get("max", 0) * max(cfg.get("durs", [0.0]))
        cfg = self.k.sync_stall_cfg
        if cfg:
            timeout += cfg.get("n", 1) * max(cfg.get("durs", [0.0]))
        end = self.k.now + timeout
        self.k.settle()
        while not pred():
            if self.k.now >= end:
                return False
            self.k.advance(min(poll, max(1e-6, end - self.k.now)))
        return True

    # records
    def log(self, kind, *fields):
        self.k.log(kind, *fields)

    def probe(self, name, n=1):
        self.k.probe(name, n)

    def fault(self, name, n=1):
        self.k.fault(name, n)

    def violation(self, rule, detail, sig=None, data=None, stop=True):
        v = Violation(rule, detail, sig, data)
        if not self.k.ending:
            self.violations.append(v)
            self.k.log("violation", rule, v.sig)
        if stop and self.k.current is self.k.root:
            raise StopRun()
        return v

    def inconclusive(self, reason):
        """The scenario's precondition (not the property) failed: the run decides nothing."""
        self.k.log("inconclusive", reason)
        raise SimAbort("precondition", reason)

    def make_net(self, **cfg):
        return sockets.SimNet(self.k, self.rng, **cfg)

    def make_line(self, **cfg):
        return serialline.SimLine(self.k, self.rng, **cfg)

    def blocked_report(self):
        return self.k.blocked_report()


def _sched_seed(seed):
    return int.from_bytes(hashlib.blake2b(f"sched:{seed}".encode(), digest_size=8).digest(), "big")


def execute(scenario, plan: dict, keep_events=False, limits: Limits | None = None) -> dict:
    """Run `scenario.run(sim, plan)` once under the simulator; returns a JSON-able result."""
    prepare()
    sched = plan.get("sched", {"policy": "random", "p": 0.1})
    seed = plan.get("seed", 0)
    if limits is not None:
        lim = limits
    elif plan.get("limits"):
        lim = Limits(**plan["limits"])
    else:
        lim = Limits(**getattr(scenario, "LIMITS", {}))
    k = Kernel(sched, sched.get("seed", _sched_seed(seed)), lim)
    k.keep_events = keep_events
    k.make_root()
    facades.set_kernel(k)
    sim = Sim(k, plan, seed ^ 0xDA7A)
    outcome = "ok"
    abort = None
    harness = None
    before = {t.ident for t in _real_threading.enumerate()}
    try:
        try:
            scenario.run(sim, plan)
        except StopRun:
            outcome = "violation"
        except SimAbort as a:
            abort = a
            outcome = "abort:" + a.kind
            handler = getattr(scenario, "on_abort", None)
            if handler is not None:
                try:
                    handler(sim, plan, a)
                except StopRun:
                    pass
        except SimKilled:
            harness = "SimKilled reached the root thread"
        except HarnessError as e:
            harness = f"HarnessError: {e}"
        except Exception:  # noqa: BLE001 - scenario bug, reported as harness error
            harness = "scenario exception:\n" + traceback.format_exc()
        blocked = None
        if sim.violations or abort is not None:
            try:
                blocked = k.blocked_report()
            except Exception:  # noqa: BLE001
                blocked = None
    finally:
        try:
            k.finish()
        except HarnessError as e:
            harness = (harness or "") + f" HarnessError at finish: {e}"
        facades.set_kernel(None)
    after = [t for t in _real_threading.enumerate() if t.ident not in before and t.is_alive()]
    if after:
        harness = (harness or "") + f" real threads outside the simulator: {[t.name for t in after]}"
    if sim.violations:
        outcome = "violation"
    dig = hashlib.blake2b(digest_size=16)
    dig.update(k.digest.digest())
    dig.update(k.sched_hash.digest())
    dig.update(f"{k.steps}:{k.now:.6f}:{k.switches}".encode())
    res = {
        "outcome": outcome,
        "violations": [v.as_dict() for v in sim.violations],
        "harness_error": harness,
        "abort": None if abort is None else {"kind": abort.kind, "detail": abort.detail},
        "digest": dig.hexdigest(),
        "sched_hash": k.sched_hash.hexdigest(),
        "steps": k.steps,
        "switches": k.switches,
        "vtime": round(k.now, 6),
        "threads": k.spawned,
        "probes": dict(k.probes),
        "faults": dict(k.faults),
        "nontrivial": bool(sim.nontrivial),
        "abstract": sim.abstract,
        "notes": sim.notes,
        "thread_errors": [(n, r, e) for (n, r, e, _tb) in k.thread_errors],
        "blocked": blocked,
    }
    if keep_events:
        res["events"] = [list(map(_jsonable, e)) for e in k.events]
        res["thread_tracebacks"] = [tb for (_n, _r, _e, tb) in k.thread_errors]
    return res


def _jsonable(x):
    if isinstance(x, (int, float, str, bool)) or x is None:
        return x
    if isinstance(x, (bytes, bytearray)):
        return x.hex()
    if isinstance(x, (list, tuple)):
        return [_jsonable(i) for i in x]
    if isinstance(x, dict):
        return {str(a): _jsonable(b) for a, b in x.items()}
    return repr(x)

"""Harness helpers for SECS-I scenarios: reference E4 peer automaton, E4 handshake monitor, endpoint builder."""

from __future__ import annotations

from . import refcodec as rc


def make_endpoint(sim, port, host: bool, device_id=0, **kw):
    """A real SecsIProtocol on the real SerialConnection over the simulated line."""
    import secsgem.common
    import secsgem.secsi

    dtype = secsgem.common.DeviceType.HOST if host else secsgem.common.DeviceType.EQUIPMENT
    settings = secsgem.secsi.SecsISettings(port=port, speed=9600, device_type=dtype, device_id=device_id, **kw)
    return secsgem.secsi.SecsIProtocol(settings)


class Recorder:
    """message_received recorder for a SecsIProtocol."""

    def __init__(self, sim, proto, label):
        self.sim = sim
        self.label = label
        self.received = []
        proto.events.message_received += self._on

    def _on(self, data):
        m = data["message"]
        h = m.header
        self.received.append({"system": h.system, "stream": h.stream, "function": h.function,
                              "w": bool(h.require_response), "device": h.device_id, "r": bool(h.from_equipment),
                              "body": bytes(m.data), "blocks": len(m.blocks)})
        self.sim.log("ev-message", self.label, h.system, h.stream, h.function, len(m.data))


class SecsIPeer:
    """Reference E4 line automaton on one end of a SimLine (kernel-context callbacks, never blocks)."""

    def __init__(self, sim, line, port, label="refpeer"):
        self.sim = sim
        self.line = line
        self.port = port
        self.label = label
        self.state = "idle"           # idle | rx_block | tx_wait_eot | tx_wait_ack
        self.buf = bytearray()
        self.rx_blocks: list = []     # (Block, checksum_ok)
        self.assembling: dict = {}    # system -> list of blocks
        self.messages: list = []      # reassembled messages: dict
        self.errors: list = []        # protocol errors seen by the reference peer
        self.tx_queue: list = []      # blocks (bytes) waiting to be sent
        self.tx_results: list = []    # (block bytes, "ack"/"nak"/other)
        self.nak_next = False
        self.abandon_on_nak = True
        self.on_idle = None
        self.on_message = None        # callable(message dict) when a message was reassembled
        self.is_master = False        # E4 contention: the equipment is master, the host yields
        self.contentions = 0
        line.sinks[port] = self._on_bytes

    # ---- transmit helpers
    def _tx(self, data):
        self.line.transmit(self.port, bytes(data))

    def send_blocks(self, blocks):
        """Queue encoded blocks; they are sent one at a time whenever the line is idle."""
        self.tx_queue.extend(bytes(b) for b in blocks)
        self._kick()

    def _kick(self):
        if self.state == "idle" and self.tx_queue and not self.buf:
            self.state = "tx_wait_eot"
            self._tx([rc.ENQ])

    # ---- receive automaton
    def _on_bytes(self, piece):
        self.buf.extend(piece)
        progress = True
        while progress and self.buf:
            progress = False
            if self.state == "idle":
                b = self.buf.pop(0)
                if b == rc.ENQ:
                    self.state = "rx_block"
                    self._tx([rc.EOT])
                else:
                    self.errors.append(f"unexpected byte {b:#x} while idle")
                progress = True
            elif self.state == "rx_block":
                n = self.buf[0]
                if len(self.buf) < n + 3:
                    break
                raw = bytes(self.buf[:n + 3])
                del self.buf[:n + 3]
                progress = True
                try:
                    blk, ok = rc.decode_block(raw)
                except ValueError as exc:
                    self.errors.append(f"undecodable block: {exc}")
                    blk, ok = None, False
                if self.nak_next:
                    ok = False
                    self.nak_next = False
                self.rx_blocks.append((blk, ok, raw, self.sim.k.now))
                if ok:
                    self._tx([rc.ACK])
                    self._assemble(blk)
                else:
                    self._tx([rc.NAK])
                self.state = "idle"
            elif self.state == "tx_wait_eot":
                b = self.buf.pop(0)
                progress = True
                if b == rc.EOT:
                    self.state = "tx_wait_ack"
                    self._tx(self.tx_queue[0])
                elif b == rc.ENQ:
                    self.contentions += 1
                    if not self.is_master:
                        # E4 contention: the slave (host) postpones its own block and receives first
                        self.state = "rx_block"
                        self._tx([rc.EOT])
                    # the master ignores the ENQ and keeps waiting for its EOT
                else:
                    self.errors.append(f"expected EOT, got {b:#x}")
            elif self.state == "tx_wait_ack":
                b = self.buf.pop(0)
                progress = True
                blk = self.tx_queue.pop(0)
                self.tx_results.append((blk, "ack" if b == rc.ACK else "nak" if b == rc.NAK else f"{b:#x}"))
                if b != rc.ACK and self.abandon_on_nak:
                    # no RTY in the property: a refused transfer is abandoned, the remaining blocks are not sent
                    self.tx_queue.clear()
                self.state = "idle"
        if self.state == "idle" and not self.buf:
            self._kick()
            if self.state == "idle" and self.on_idle is not None:
                self.on_idle()

    def _assemble(self, blk):
        lst = self.assembling.setdefault(blk.system, [])
        lst.append(blk)
        if blk.e:
            del self.assembling[blk.system]
            msg = {"system": blk.system, "stream": blk.stream, "function": blk.function, "w": blk.w,
                   "device": blk.device, "r": blk.r, "body": b"".join(b.data for b in lst), "blocks": lst}
            self.messages.append(msg)
            if self.on_message is not None:
                self.on_message(msg)


class E4Monitor:
    """Checks the ENQ/EOT/block/ACK-NAK discipline on the transmit log of a SimLine (both directions)."""

    def __init__(self, sim, line):
        self.sim = sim
        self.line = line
        self.state = "idle"
        self.sender = None
        self.buf = bytearray()
        self.blocks: list = []     # dict(src, raw, t, result)
        self.errors: list = []
        self.log: list = []
        line.taps.append(self._tap)

    def _other(self, src):
        return self.line.other(src)

    def _tap(self, src, data):
        t = self.sim.k.now
        for b in data:
            self._byte(src, b, t)

    def _err(self, text):
        if len(self.errors) < 20:
            self.errors.append(f"t={self.sim.k.now:.4f} {text}")

    def _byte(self, src, b, t):
        st = self.state
        if st == "idle":
            if b == rc.ENQ:
                self.sender = src
                self.state = "enq"
            else:
                self._err(f"{src} sent {b:#x} while the line was idle (no ENQ)")
        elif st == "enq":
            if src == self._other(self.sender) and b == rc.EOT:
                self.state = "eot"
                self.buf.clear()
            elif src == self._other(self.sender) and b == rc.ENQ:
                self._err("contention: both sides sent ENQ")
                self.state = "enq"
            else:
                self._err(f"after ENQ from {self.sender}: {src} sent {b:#x}, expected EOT from the receiver "
                          "(block started before EOT)" if src == self.sender else
                          f"after ENQ from {self.sender}: receiver sent {b:#x} instead of EOT")
                if src == self.sender:
                    # treat as a block that was started without EOT
                    self.state = "eot"
                    self.buf.clear()
                    self.buf.append(b)
        elif st == "eot":
            if src != self.sender:
                self._err(f"receiver {src} sent {b:#x} while the block was being transmitted")
                return
            self.buf.append(b)
            n = self.buf[0]
            if len(self.buf) == n + 3:
                self.blocks.append({"src": src, "raw": bytes(self.buf), "t": t, "result": None})
                self.state = "block"
        elif st == "block":
            if src == self._other(self.sender) and b in (rc.ACK, rc.NAK):
                self.blocks[-1]["result"] = "ack" if b == rc.ACK else "nak"
                self.state = "idle"
                self.sender = None
            else:
                self._err(f"after a block from {self.sender}: {src} sent {b:#x}, expected ACK/NAK from the receiver")


class SecsIHp:
    """Adapter: gives a SecsIPeer the small interface of hsmsenv.HsmsPeer that gemenv.GemPeer is written against."""

    def __init__(self, sim, line, port, peer_is_host, device_id=0, label="secsi-peer"):
        self.sim = sim
        self.label = label
        self.peer = SecsIPeer(sim, line, port, label)
        self.peer.is_master = not peer_is_host
        self.peer_is_host = peer_is_host
        self.device_id = device_id
        self.handlers: list = []
        self.frames: list = []
        self.sent: list = []
        self.open = True
        self.selected = True
        self.eof = None
        self.auto_select = False
        self.auto_linktest = False
        self.peer.on_message = self._on_message

    def _on_message(self, msg):
        fr = rc.data(msg["stream"], msg["function"], msg["w"], msg["system"], msg["body"], session=msg["device"])
        fr.t, fr.seq = self.sim.k.now, self.sim.k.seq
        self.sim.log("wire<", self.label, fr.short())
        self.frames.append(fr)
        for h in list(self.handlers):
            h(fr)

    def send(self, frame, delay=None):
        self.sent.append(frame)
        self.sim.log("wire>", self.label, frame.short())
        blocks = rc.split_message(self.device_id, not self.peer_is_host, frame.w, frame.stream, frame.function,
                                  frame.system, frame.body)
        self.peer.send_blocks([b.encode() for b in blocks])
        return True

    def frames_of(self, stype=None, system=None):
        return [f for f in self.frames if (stype in (None, 0)) and (system is None or f.system == system)]

    def close(self):
        self.open = False

    reset = close

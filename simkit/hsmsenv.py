"""Harness helpers for HSMS scenarios: endpoint construction, raw scripted peer, wire tap."""

from __future__ import annotations

from . import refcodec as rc
from .sockets import SimSocket

ADDR = ("127.0.0.1", 5000)


def make_settings(active: bool, port=5000, **kw):
    import secsgem.hsms
    import secsgem.common

    mode = secsgem.hsms.HsmsConnectMode.ACTIVE if active else secsgem.hsms.HsmsConnectMode.PASSIVE
    return secsgem.hsms.HsmsSettings(connect_mode=mode, address="127.0.0.1", port=port, **kw)


class HsmsPeer:
    """Raw peer speaking E37 with the reference codec over a harness-side SimSocket."""

    def __init__(self, sim, sock: SimSocket, label="peer"):
        self.sim = sim
        self.sock = sock
        self.label = label
        self.parser = rc.FrameParser()
        self.frames: list[rc.Frame] = []  # frames written by the endpoint, in order
        self.handlers: list = []
        self.eof = None  # None | "fin" | "rst"
        self.eof_t = None
        self.sent: list[rc.Frame] = []
        self.bytes_out = 0  # bytes sent to the endpoint on this connection
        self.auto_select = False
        self.auto_linktest = True
        self.selected = False  # the peer's own view of the session (it answers data only when selected)
        self._out_parser = rc.FrameParser()  # tracks frame boundaries of what this peer has sent
        self._deferred: list = []
        sock.on_bytes = self._on_bytes
        sock.on_eof = self._on_eof

    # ---- inbound from the endpoint (kernel context)
    def _on_bytes(self, chunk):
        k = self.sim.k
        new = self.parser.feed(chunk, k.now, k.seq)
        for fr in new:
            self.sim.log("wire<", self.label, fr.short())
            fr.seq = k.seq
            self.frames.append(fr)
            if fr.stype == rc.LINKTEST_REQ and self.auto_linktest:
                self.send(rc.control(rc.LINKTEST_RSP, fr.system))
            elif fr.stype == rc.SELECT_REQ and self.auto_select:
                self.send(rc.control(rc.SELECT_RSP, fr.system))
                self.selected = True
            elif fr.stype == rc.SELECT_RSP and fr.function == 0:
                self.selected = True
            elif fr.stype in (rc.SEPARATE_REQ, rc.DESELECT_REQ):
                self.selected = False
            for h in list(self.handlers):
                h(fr)
        if self.parser.error:
            self.sim.log("wire-error", self.label, self.parser.error)

    def _on_eof(self, rst):
        if self.eof is None:
            self.eof = "rst" if rst else "fin"
            self.eof_t = self.sim.now
            self.sim.log("wire-eof", self.label, self.eof)

    # ---- outbound to the endpoint
    def send(self, frame, delay=None):
        """Send one whole frame; if a raw partial frame is in progress the frame is queued behind it."""
        data = frame.encode() if isinstance(frame, rc.Frame) else bytes(frame)
        if self._out_parser.pending:
            self._deferred.append((frame, delay))
            return True
        if isinstance(frame, rc.Frame):
            self.sent.append(frame)
            self.sim.log("wire>", self.label, frame.short())
        self.bytes_out += len(data)
        self._out_parser.feed(data)
        self._out_parser.frames.clear()
        return self.sock.inject(data, delay)

    def send_bytes(self, data, delay=None):
        """Send raw bytes of a (valid) frame stream, possibly ending inside a frame."""
        self.bytes_out += len(data)
        self._out_parser.feed(data)
        self._out_parser.frames.clear()
        ok = self.sock.inject(data, delay)
        if not self._out_parser.pending and self._deferred:
            pending, self._deferred = self._deferred, []
            for frame, dly in pending:
                self.send(frame, dly)
        return ok

    def close(self):
        self.sim.log("peer-close", self.label)
        self.sock.close()

    def reset(self):
        self.sim.log("peer-reset", self.label)
        self.sock.reset()

    @property
    def open(self):
        return self.sock._fd >= 0 and self.eof is None

    def frames_of(self, stype=None, system=None):
        return [f for f in self.frames if (stype is None or f.stype == stype) and (system is None or f.system == system)]


def connect_peer(sim, addr=ADDR, label="peer"):
    """Root: connect a raw peer to a passive endpoint; returns HsmsPeer or None if refused."""
    s = SimSocket(_net=sim.k.net)
    try:
        s.connect(addr)
    except ConnectionRefusedError:
        return None
    # the server side object is created by connect(); the harness side is `s`
    return HsmsPeer(sim, s, label)


class PeerListener:
    """Harness-side listening socket for an active endpoint; every accepted connection becomes an HsmsPeer."""

    def __init__(self, sim, addr=ADDR, label="peer", configure=None):
        self.sim = sim
        self.label = label
        self.peers: list[HsmsPeer] = []
        self.configure = configure
        self.sock = SimSocket(_net=sim.k.net)
        self.sock.bind(addr)
        self.sock.listen(5)
        self.sock.on_accept = self._on_accept

    def _on_accept(self, server_side_sock):
        peer = HsmsPeer(self.sim, server_side_sock, f"{self.label}{len(self.peers) + 1}")
        self.peers.append(peer)
        self.sim.log("peer-accept", peer.label)
        if self.configure is not None:
            self.configure(peer)

    def close(self):
        self.sock.close()

    @property
    def last(self):
        return self.peers[-1] if self.peers else None


class Endpoint:
    """A real HsmsProtocol on the real Tcp*Connection classes over the simulated network, with recorders."""

    def __init__(self, sim, active, port=5000, label="ep", protocol_factory=None, **settings_kw):
        import secsgem.hsms

        self.sim = sim
        self.active = active
        self.addr = ("127.0.0.1", port)
        self.label = label
        self.settings = make_settings(active, port, **settings_kw)
        self.proto = (protocol_factory or secsgem.hsms.HsmsProtocol)(self.settings)
        self.connected_n = 0
        self.disconnected_n = 0
        self.communicating_n = 0
        self.received: list = []  # (seq, system, stream, function, w, body)
        self.calls: dict = {}
        ev = self.proto.events
        ev.connected += self._on_connected
        ev.disconnected += self._on_disconnected
        ev.communicating += self._on_communicating
        ev.message_received += self._on_message

    def _on_connected(self, _):
        self.connected_n += 1
        self.sim.log("ev-connected", self.label)

    def _on_disconnected(self, _):
        self.disconnected_n += 1
        self.sim.log("ev-disconnected", self.label)

    def _on_communicating(self, _):
        self.communicating_n += 1
        self.sim.log("ev-communicating", self.label)

    def _on_message(self, data):
        m = data["message"]
        h = m.header
        self.received.append((self.sim.k.seq, h.system, h.stream, h.function, bool(h.require_response),
                              bytes(m.data), h.device_id, getattr(h, "p_type", 0)))
        self.sim.log("ev-message", self.label, h.system, h.stream, h.function)

    @property
    def state(self):
        return self.proto.connection_state.current.name

    def call_async(self, name, fn):
        """Run fn() on a simulated application thread; result recorded in self.calls[name]."""
        rec = {"done": False, "result": None, "exc": None, "t0": self.sim.now, "t1": None}
        self.calls[name] = rec

        def body():
            try:
                rec["result"] = fn()
            except Exception as exc:  # noqa: BLE001
                rec["exc"] = repr(exc)
            rec["done"] = True
            rec["t1"] = self.sim.now
            self.sim.log("call-done", self.label, name)

        self.sim.spawn(body, f"app_{name}", role="app")
        return rec

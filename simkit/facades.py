"""Simulated stand-ins for threading / queue / time / select / random, and their installation.

The facades are set as module globals on every secsgem module that imported the
real module (`mod.threading = facade`), so unmodified secsgem code runs on the
simulator.  Nothing here is used outside a run.
"""

from __future__ import annotations

import collections
import queue as _real_queue
import select as _real_select
import socket as _real_socket
import sys
import threading as _real_threading
import time as _real_time
import random as _real_random
import datetime as _real_datetime
import types

from . import kernel as _k
from .kernel import SimKilled, TIMEOUT, DONE, HarnessError

_kernel: _k.Kernel | None = None  # the run in progress (one per process at a time)


def set_kernel(k):
    global _kernel
    _kernel = k


def K() -> _k.Kernel:
    k = _kernel
    if k is None:
        raise HarnessError("simulated primitive used outside a run")
    if k.ending and _k._thread.get_ident() != k.root_ident:
        raise SimKilled()
    return k


# --------------------------------------------------------------------------- threading
class Event:
    def __init__(self):
        self._flag = False

    def is_set(self):
        return self._flag

    isSet = is_set

    def set(self):
        k = K()
        k.yield_point()
        self._flag = True
        k.wake_all(self)

    def clear(self):
        k = K()
        k.yield_point()
        self._flag = False

    def wait(self, timeout=None):
        k = K()
        k.yield_point()
        if self._flag:
            return True
        v = k.block(self, timeout)
        return v is not TIMEOUT


class Lock:
    """Non re-entrant lock."""

    def __init__(self):
        self._owner = None

    def acquire(self, blocking=True, timeout=-1):
        k = K()
        k.yield_point()
        me = k.current
        deadline = None if timeout is None or timeout < 0 else k.now + timeout
        while self._owner is not None:
            if not blocking:
                return False
            rem = None if deadline is None else deadline - k.now
            if rem is not None and rem <= 0:
                return False
            k.block(self, rem)
        self._owner = me
        return True

    def release(self):
        k = K()
        if self._owner is None:
            raise RuntimeError("release unlocked lock")
        self._owner = None
        k.wake_all(self)

    def locked(self):
        return self._owner is not None

    __enter__ = acquire

    def __exit__(self, *a):
        self.release()


class RLock:
    def __init__(self):
        self._owner = None
        self._count = 0

    def acquire(self, blocking=True, timeout=-1):
        k = K()
        k.yield_point()
        me = k.current
        if self._owner is me:
            self._count += 1
            return True
        deadline = None if timeout is None or timeout < 0 else k.now + timeout
        while self._owner is not None:
            if not blocking:
                return False
            rem = None if deadline is None else deadline - k.now
            if rem is not None and rem <= 0:
                return False
            k.block(self, rem)
        self._owner = me
        self._count = 1
        return True

    def release(self):
        k = K()
        if self._owner is not k.current:
            raise RuntimeError("cannot release un-acquired lock")
        self._count -= 1
        if self._count == 0:
            self._owner = None
            k.wake_all(self)

    __enter__ = acquire

    def __exit__(self, *a):
        self.release()


class Condition:
    def __init__(self, lock=None):
        self._lock = lock if lock is not None else RLock()
        self._waiters: list = []

    def acquire(self, *a, **kw):
        return self._lock.acquire(*a, **kw)

    def release(self):
        self._lock.release()

    def __enter__(self):
        return self._lock.acquire()

    def __exit__(self, *a):
        self._lock.release()

    def _is_owned(self):
        return self._lock._owner is K().current

    def wait(self, timeout=None):
        k = K()
        me = k.current
        lock = self._lock
        if lock._owner is not me:
            raise RuntimeError("cannot wait on un-acquired lock")
        saved = getattr(lock, "_count", 1)
        lock._owner = None
        if hasattr(lock, "_count"):
            lock._count = 0
        k.wake_all(lock)
        token = [me]
        self._waiters.append(token)
        try:
            v = k.block(token, timeout)
        finally:
            if token in self._waiters:
                self._waiters.remove(token)
        while lock._owner is not None:
            k.block(lock, None)
        lock._owner = me
        if hasattr(lock, "_count"):
            lock._count = saved
        return v is not TIMEOUT

    def wait_for(self, predicate, timeout=None):
        k = K()
        endtime = None
        result = predicate()
        while not result:
            if timeout is not None:
                if endtime is None:
                    endtime = k.now + timeout
                rem = endtime - k.now
                if rem <= 0:
                    break
                self.wait(rem)
            else:
                self.wait(None)
            result = predicate()
        return result

    def notify(self, n=1):
        k = K()
        if self._lock._owner is not k.current:
            raise RuntimeError("cannot notify on un-acquired lock")
        for token in self._waiters[:n]:
            self._waiters.remove(token)
            k.wake(token[0], True)

    def notify_all(self):
        self.notify(len(self._waiters))

    notifyAll = notify_all


class Semaphore:
    def __init__(self, value=1):
        self._value = value

    def acquire(self, blocking=True, timeout=None):
        k = K()
        k.yield_point()
        deadline = None if timeout is None else k.now + timeout
        while self._value == 0:
            if not blocking:
                return False
            rem = None if deadline is None else deadline - k.now
            if rem is not None and rem <= 0:
                return False
            k.block(self, rem)
        self._value -= 1
        return True

    def release(self, n=1):
        k = K()
        self._value += n
        k.wake_all(self)

    __enter__ = acquire

    def __exit__(self, *a):
        self.release()


_ROLE_MARKS = (
    ("protocol_receiver", "protocol_receiver"),
    ("protocol_dispatcher", "protocol_dispatcher"),
    ("tcpConnection_receiver", "tcp_receiver"),
    ("serverThread", "tcp_accept"),
    ("connectThread", "tcp_connect"),
    ("sendSelectReqThread", "select_req"),
    ("linktestTimer", "linktest_timer"),
    ("serial", "serial_receiver"),
)


def role_of(name, default="thread"):
    for mark, role in _ROLE_MARKS:
        if mark in name:
            return role
    return default


class Thread:
    _counter = 0

    def __init__(self, group=None, target=None, name=None, args=(), kwargs=None, *, daemon=None):
        self._target = target
        self._args = args
        self._kwargs = kwargs or {}
        if name is None:
            k = _kernel
            n = (k.spawned + 1) if k is not None else 0
            name = f"SimThread-{n}"
        self.name = name
        self.daemon = bool(daemon)
        self._rec = None
        self.role = None

    def start(self):
        k = K()
        if self._rec is not None:
            raise RuntimeError("threads can only be started once")
        k.yield_point()
        role = self.role or role_of(str(self.name), "timer" if isinstance(self, Timer) else "thread")
        self._rec = k.spawn(self._bootstrap_inner, str(self.name), role, obj=self)

    def _bootstrap_inner(self):
        self.run()

    def run(self):
        if self._target is not None:
            self._target(*self._args, **self._kwargs)

    def join(self, timeout=None):
        k = K()
        if self._rec is None:
            raise RuntimeError("cannot join thread before it is started")
        if self._rec is k.current:
            raise RuntimeError("cannot join current thread")
        k.yield_point()
        if self._rec.state != DONE:
            k.block(("join", self._rec), timeout)

    def is_alive(self):
        return self._rec is not None and self._rec.state != DONE

    @property
    def ident(self):
        return None if self._rec is None else self._rec.tid

    def getName(self):  # noqa: N802
        return self.name

    def setName(self, name):  # noqa: N802
        self.name = name

    def setDaemon(self, d):  # noqa: N802
        self.daemon = d


class Timer(Thread):
    def __init__(self, interval, function, args=None, kwargs=None):
        super().__init__()
        self.interval = interval
        self.function = function
        self.args = args if args is not None else []
        self.kwargs = kwargs if kwargs is not None else {}
        self.finished = Event()

    def cancel(self):
        self.finished.set()

    def run(self):
        self.finished.wait(self.interval)
        if not self.finished.is_set():
            self.function(*self.args, **self.kwargs)
        self.finished.set()


class Local:
    """threading.local for simulated threads (storage keyed by the simulated thread)."""

    def __init__(self):
        object.__setattr__(self, "_store", {})

    def _mine(self):
        k = _kernel
        tid = k.current.tid if k is not None and k.current is not None else -1
        return object.__getattribute__(self, "_store").setdefault(tid, {})

    def __getattr__(self, name):
        try:
            return self._mine()[name]
        except KeyError:
            raise AttributeError(name) from None

    def __setattr__(self, name, value):
        self._mine()[name] = value

    def __delattr__(self, name):
        try:
            del self._mine()[name]
        except KeyError:
            raise AttributeError(name) from None


class _MainThreadStub:
    name = "MainThread"
    daemon = False
    ident = 0

    def is_alive(self):
        return True


_main_stub = _MainThreadStub()


class ThreadingFacade(types.ModuleType):
    """Replacement for the `threading` module inside secsgem modules."""

    def __init__(self):
        super().__init__("threading")
        self.Thread = Thread
        self.Timer = Timer
        self.Event = Event
        self.Condition = Condition
        self.Lock = Lock
        self.RLock = RLock
        self.Semaphore = Semaphore
        self.BoundedSemaphore = Semaphore
        self.local = Local
        self.TIMEOUT_MAX = _real_threading.TIMEOUT_MAX

    @staticmethod
    def current_thread():
        k = K()
        obj = k.current.obj
        return obj if obj is not None else _main_stub

    currentThread = current_thread

    @staticmethod
    def get_ident():
        return K().current.tid

    @staticmethod
    def main_thread():
        return _main_stub

    @staticmethod
    def active_count():
        return len(K().threads)

    @staticmethod
    def enumerate():
        return [r.obj if r.obj is not None else _main_stub for r in K().threads]


# --------------------------------------------------------------------------- queue
class Queue:
    def __init__(self, maxsize=0):
        self.maxsize = maxsize
        self._items = collections.deque()

    def qsize(self):
        return len(self._items)

    def empty(self):
        return not self._items

    def full(self):
        return 0 < self.maxsize <= len(self._items)

    def put(self, item, block=True, timeout=None):
        k = K()
        k.yield_point()
        deadline = None if timeout is None else k.now + timeout
        while self.full():
            if not block:
                raise _real_queue.Full
            rem = None if deadline is None else deadline - k.now
            if rem is not None and rem <= 0:
                raise _real_queue.Full
            k.block(("qput", id(self)), rem)
        self._items.append(item)
        k.wake_all(self)

    def put_nowait(self, item):
        self.put(item, block=False)

    def get(self, block=True, timeout=None):
        k = K()
        k.yield_point()
        if timeout is not None and timeout < 0:
            raise ValueError("'timeout' must be a non-negative number")
        deadline = None if timeout is None else k.now + timeout
        while not self._items:
            if not block:
                raise _real_queue.Empty
            rem = None if deadline is None else deadline - k.now
            if rem is not None and rem <= 0:
                raise _real_queue.Empty
            k.block(self, rem)
        item = self._items.popleft()
        if self.maxsize > 0:
            k.wake_all(("qput", id(self)))
        return item

    def get_nowait(self):
        return self.get(block=False)

    def task_done(self):
        pass

    def join(self):
        raise HarnessError("Queue.join is not simulated")


class QueueFacade(types.ModuleType):
    def __init__(self):
        super().__init__("queue")
        self.Queue = Queue
        self.SimpleQueue = Queue
        self.LifoQueue = None
        self.PriorityQueue = None
        self.Empty = _real_queue.Empty
        self.Full = _real_queue.Full


# --------------------------------------------------------------------------- time
EPOCH = 1_700_000_000.0


class TimeFacade(types.ModuleType):
    def __init__(self):
        super().__init__("time")

    @staticmethod
    def sleep(dt):
        K().sleep(dt)

    @staticmethod
    def time():
        return EPOCH + K().now

    @staticmethod
    def monotonic():
        return K().now

    perf_counter = monotonic

    @staticmethod
    def time_ns():
        return int((EPOCH + K().now) * 1e9)

    @staticmethod
    def monotonic_ns():
        return int(K().now * 1e9)

    def __getattr__(self, name):
        if name in ("strftime", "gmtime", "struct_time", "mktime", "timezone", "altzone", "daylight", "tzname"):
            return getattr(_real_time, name)
        if name == "localtime":
            return _real_time.gmtime
        raise AttributeError(name)


class RandomFacade(types.ModuleType):
    def __init__(self):
        super().__init__("random")

    def __getattr__(self, name):
        if name.startswith("__"):
            raise AttributeError(name)
        if name in ("Random", "SystemRandom"):
            raise HarnessError(f"random.{name} is not simulated")
        return getattr(K().app_rng, name)


class _SimDateTime(_real_datetime.datetime):
    @classmethod
    def now(cls, tz=None):
        base = _real_datetime.datetime.fromtimestamp(EPOCH + K().now, _real_datetime.timezone.utc)
        if tz is not None:
            return base.astimezone(tz)
        return base.replace(tzinfo=None)

    @classmethod
    def utcnow(cls):
        return cls.now()

    @classmethod
    def today(cls):
        return cls.now()


class DatetimeFacade(types.ModuleType):
    def __init__(self):
        super().__init__("datetime")
        self.datetime = _SimDateTime
        for name in ("date", "time", "timedelta", "timezone", "tzinfo", "MINYEAR", "MAXYEAR", "UTC"):
            if hasattr(_real_datetime, name):
                setattr(self, name, getattr(_real_datetime, name))


def _sim_tzlocal():
    return _real_datetime.timezone.utc


# --------------------------------------------------------------------------- installation
threading_facade = ThreadingFacade()
queue_facade = QueueFacade()
time_facade = TimeFacade()
random_facade = RandomFacade()
datetime_facade = DatetimeFacade()

_FORBIDDEN = ("asyncio", "concurrent", "concurrent.futures", "multiprocessing", "subprocess", "signal", "uuid",
              "secrets", "_thread", "selectors", "ssl", "socketserver")

_installed: dict = {}


def install(extra_module_facades=None, preemptible=None):
    """Replace nondeterminism sources in all loaded secsgem modules. Idempotent per process."""
    import importlib
    import pkgutil

    import secsgem

    # make sure every submodule is loaded so nothing is imported (unpatched) during a run
    for m in pkgutil.walk_packages(secsgem.__path__, "secsgem."):
        if ".functions." in m.name and m.name.rsplit(".", 1)[1].startswith("s"):
            continue
        try:
            importlib.import_module(m.name)
        except Exception as exc:  # noqa: BLE001
            raise HarnessError(f"cannot import {m.name}: {exc!r}") from exc

    from . import sockets, serialline

    by_module = {
        _real_threading: threading_facade,
        _real_queue: queue_facade,
        _real_time: time_facade,
        _real_random: random_facade,
        _real_select: sockets.select_facade,
        _real_socket: sockets.socket_facade,
        _real_datetime: datetime_facade,
    }
    try:
        import serial as _real_serial

        by_module[_real_serial] = serialline.serial_facade
    except ImportError:
        _real_serial = None
    by_object = {
        _real_threading.Thread: Thread, _real_threading.Timer: Timer, _real_threading.Event: Event,
        _real_threading.Condition: Condition, _real_threading.Lock: Lock, _real_threading.RLock: RLock,
        _real_threading.Semaphore: Semaphore, _real_threading.BoundedSemaphore: Semaphore,
        _real_threading.local: Local,
        _real_queue.Queue: Queue, _real_queue.SimpleQueue: Queue,
        _real_time.sleep: time_facade.sleep, _real_time.time: time_facade.time,
        _real_time.monotonic: time_facade.monotonic, _real_time.perf_counter: time_facade.monotonic,
        _real_select.select: sockets.select_facade.select,
        _real_socket.socket: sockets.socket_facade.socket,
        _real_datetime.datetime: _SimDateTime,
        _real_random.randint: None, _real_random.random: None, _real_random.choice: None,
        _real_random.randrange: None, _real_random.getrandbits: None,
    }
    try:
        from dateutil.tz import tzlocal as _real_tzlocal

        by_object[_real_tzlocal] = _sim_tzlocal
    except ImportError:
        pass
    if _real_serial is not None:
        by_object[_real_serial.Serial] = serialline.Serial
    forbidden = {sys.modules[n] for n in _FORBIDDEN if n in sys.modules}
    import os as _os

    patched = 0
    for name, mod in sorted(sys.modules.items()):
        if mod is None or not (name == "secsgem" or name.startswith("secsgem.")):
            continue
        for attr, val in list(vars(mod).items()):
            if isinstance(val, types.ModuleType):
                if val in by_module:
                    _installed[(name, attr)] = val
                    setattr(mod, attr, by_module[val])
                    patched += 1
                elif val in forbidden:
                    raise HarnessError(f"{name}.{attr} refers to module {val.__name__}, which the simulator "
                                       "does not control")
                continue
            try:
                hash(val)
            except TypeError:
                continue
            if val in by_object:
                repl = by_object[val]
                if repl is None:
                    raise HarnessError(f"{name}.{attr} is a bound function of the global PRNG; not simulated")
                _installed[(name, attr)] = val
                setattr(mod, attr, repl)
                patched += 1
            elif val is _os.urandom or val is getattr(_os, "getrandom", None):
                raise HarnessError(f"{name}.{attr} is an OS randomness source")
    return patched


# --------------------------------------------------------------------------- line-level pre-emption
_TOOL = 4
_mon_ready = False
_instrumented: set = set()


def _on_line(code, line):
    k = _kernel
    if k is None:
        return None
    if k.ending:
        if _k._thread.get_ident() != k.root_ident:
            raise SimKilled()
        return None
    cur = k.current
    if cur.is_root:
        return None
    k.yield_point((id(code) << 16) + line)
    return None


def _on_instruction(code, offset):
    k = _kernel
    if k is None:
        return None
    if k.ending:
        if _k._thread.get_ident() != k.root_ident:
            raise SimKilled()
        return None
    cur = k.current
    if cur.is_root or k.preempt != "opcode":
        return None
    k.yield_point(None, sync=False)
    return None


def _code_objects(code):
    yield code
    for c in code.co_consts:
        if isinstance(c, types.CodeType):
            yield from _code_objects(c)


def instrument_files(path_suffixes, opcode_functions=()):
    """Enable LINE events in every function defined in secsgem files whose path ends with one of the suffixes."""
    global _mon_ready
    mon = sys.monitoring
    if not _mon_ready:
        mon.use_tool_id(_TOOL, "simkit")
        mon.register_callback(_TOOL, mon.events.LINE, _on_line)
        mon.register_callback(_TOOL, mon.events.INSTRUCTION, _on_instruction)
        _mon_ready = True
    n = 0
    seen = set()
    for name, mod in sorted(sys.modules.items()):
        if mod is None or not name.startswith("secsgem"):
            continue
        fn = getattr(mod, "__file__", None) or ""
        if not any(fn.endswith(s) for s in path_suffixes):
            continue
        for val in list(vars(mod).values()):
            codes = []
            if isinstance(val, types.FunctionType) and val.__code__.co_filename == fn:
                codes.append(val.__code__)
            elif isinstance(val, type) and val.__module__ == name:
                for sub in _class_codes(val, fn):
                    codes.append(sub)
            for code in codes:
                for c in _code_objects(code):
                    if c in seen:
                        continue
                    seen.add(c)
                    ev = mon.events.LINE
                    if c.co_qualname in opcode_functions:
                        ev |= mon.events.INSTRUCTION
                    mon.set_local_events(_TOOL, c, ev)
                    n += 1
    return n


def _class_codes(cls, fn):
    for val in vars(cls).values():
        f = val
        if isinstance(f, (staticmethod, classmethod)):
            f = f.__func__
        if isinstance(f, property):
            for g in (f.fget, f.fset, f.fdel):
                if g is not None and g.__code__.co_filename == fn:
                    yield g.__code__
        elif isinstance(f, types.FunctionType) and f.__code__.co_filename == fn:
            yield f.__code__
        elif isinstance(f, type) and f.__module__ == cls.__module__ and f is not cls:
            yield from _class_codes(f, fn)

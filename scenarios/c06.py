"""C06 - replies reach exactly their requester; other messages delivered once, one at a time, in order.

Real: Protocol.send_and_waitfor_response / get_next_system_counter / response-queue map, ProtocolDispatcher,
HsmsProtocol receive path, real Tcp*Connection.  Stub: SimSocket, scripted peer (reference codecs).
"""

from __future__ import annotations

from simkit import facades, hsmsenv, refcodec as rc

PROP = "C06"
SHRINK = ("callers", "unsolicited", "faults")
LIMITS = {"max_steps": 600_000, "max_vtime": 900.0}
BUDGET = {
    "quick": {"runs": 6000, "wall": 150, "chunk": 40, "minimise": 100},
    "thorough": {"runs": 250_000, "wall": 1500, "chunk": 100, "minimise": 200},
}
REQUIRED_PROBES = {"quick": ("two_outstanding", "reply_permuted", "reply_late", "reply_never", "reconnects",
                             "unsolicited_delivered", "transport_secsi", "multi_block_reply"),
                   "thorough": ("two_outstanding", "reply_permuted", "reply_late", "reply_never", "reconnects",
                                "unsolicited_delivered", "counter_wrap", "reply_twice", "transport_secsi",
                                "multi_block_reply", "multi_block_unsolicited")}
EVIDENCE = {
    "level": "exploration",
    "rule": ("2-5 simulated caller threads x 1-6 token-carrying requests; the peer answers each per plan (now, "
             "delayed, permuted, after T3, never, twice), injects numbered unsolicited primaries, and the link is "
             "cut and re-established; 15 % of the runs use the SECS-I transport instead (library = host, replies "
             "and unsolicited primaries of 1-5 blocks, ENQ contention); a run is non-trivial when >=2 requests "
             "were outstanding at the same time; distinct = distinct (callers, reply-mode multiset, #faults, "
             "#unsolicited bucket, scheduler, pre-emption class)"),
    "real": ["secsgem.common.Protocol (send_and_waitfor_response, get_next_system_counter, response queues)",
             "secsgem.common.ProtocolDispatcher", "secsgem.hsms.HsmsProtocol", "secsgem.common.Tcp*Connection"],
    "stub": ["socket/select (SimSocket)", "threading/queue/time facades", "peer (reference E37/E5 codecs)"],
    "assumptions": ["line-level pre-emption is what CPython 3.9 (declared supported) can do; opcode-level pre-emption in "
                    "get_next_system_counter is used in a share of runs and is recorded per violation",
                    "liveness bound for a caller: T3 + T6 + T5 + 20 virtual s after its request was issued"],
}

SCHEDS = [
    {"policy": "sticky", "preempt": "line"},
    {"policy": "random", "p": 0.05, "preempt": "line"},
    {"policy": "random", "p": 0.3, "preempt": "line"},
    {"policy": "pct", "d": 2, "horizon": 2000, "preempt": "line"},
    {"policy": "pct", "d": 4, "horizon": 6000, "preempt": "line"},
    {"policy": "rr", "q": 2, "preempt": "line"},
    {"policy": "rr", "q": 1, "preempt": "opcode"},
    {"policy": "random", "p": 0.3, "preempt": "opcode"},
    {"policy": "random", "p": 0.2, "preempt": "sync"},
    {"policy": "random", "p": 0.5, "preempt": "sync"},
    {"policy": "pct", "d": 2, "horizon": 150, "preempt": "sync"},
]
T3 = 3.0
REPLY_MODES = ["now", "now", "d0.001", "d0.1", "d0.5", "d1.0", "d2.2", "late", "never", "twice"]


def gen_plan(rng, tier, index):
    ncallers = rng.choice([2, 2, 3, 4, 5])
    callers = []
    for c in range(ncallers):
        reqs = []
        for _ in range(rng.choice([1, 2, 3, 4, 6])):
            reqs.append([rng.choice([0, 0, 0, 0.001, 0.05, 0.4, "fault", "fault-", "fault+"]), rng.choice(REPLY_MODES)])
        callers.append(reqs)
    faults = []
    if rng.random() < 0.45:
        t = 0.0
        for _ in range(rng.choice([1, 1, 2, 3])):
            t += rng.choice([0.05, 0.3, 1.0, 2.5, 4.0])
            faults.append([round(t, 3), rng.choice(["peer_fin", "peer_rst", "peer_rst", "peer_partial_fin", "local_cycle"])])
            t += 1.5
    unsolicited = []
    t = 0.0
    for _ in range(rng.choice([0, 1, 3, 6, 12])):
        t += rng.choice([0, 0, 0.001, 0.02, 0.3, 1.0])
        unsolicited.append([round(t, 4), rng.choice(["S2F25", "S10F3", "S1F1", "S6F11x"])])
    plan = {
        "active": rng.random() < 0.4, "callers": callers, "faults": faults, "unsolicited": unsolicited,
        "counter": rng.choice(["random", "random", "wrap", "zero"]), "handler_delay": rng.choice([0, 0.001, 0.05]),
        "t5": rng.choice([1, 2]), "latency": rng.choice([0.0, 0.0005, 0.01]),
        "start_stagger": rng.choice([0, 0, 0.001]),
    }
    if rng.random() < 0.15:
        # the same request/reply matching and delivery over the SECS-I transport: replies and unsolicited primaries of
        # several blocks, the library is the host (contention slave)
        plan["transport"] = "secsi"
        plan["secsi"] = {
            "callers": [[[rng.choice([0, 0, 0.01, 0.3]), rng.choice(["now", "now", "d0.05", "d0.5", "never"]),
                          rng.choice([0, 10, 244, 245, 600, 1000])] for _ in range(rng.choice([1, 2, 3]))]
                        for _ in range(rng.choice([1, 2, 3]))],
            "unsol": [[round(rng.choice([0, 0.01, 0.2, 0.6, 1.5]), 3), rng.choice([0, 10, 244, 245, 700])]
                      for _ in range(rng.choice([0, 1, 2, 4]))],
            "chunk": rng.choice(["whole", "whole", "random"]),
        }
    sched = dict(rng.choice(SCHEDS))
    sched["seed"] = rng.getrandbits(48)
    plan["sched"] = sched
    return plan


def sample_view(plan):
    return {k: plan[k] for k in ("active", "callers", "faults", "unsolicited", "counter", "handler_delay", "sched")}


def shrink_candidates(plan):
    for ci, reqs in enumerate(plan["callers"]):
        if len(reqs) > 1:
            yield dict(plan, callers=plan["callers"][:ci] + [reqs[:-1]] + plan["callers"][ci + 1:])
    if plan["handler_delay"]:
        yield dict(plan, handler_delay=0)
    if plan["latency"]:
        yield dict(plan, latency=0.0)


def _token(c, i):
    return bytes([0xC0 + c, i, 0x5A, c * 16 + i])


def run_secsi(sim, plan):
    """C06 over SECS-I: callers' replies (also multi-block) reach exactly their requester; unsolicited (multi-block)
    primaries are delivered once, in order."""
    import random

    import secsgem.secs.functions as sf

    from simkit import secsienv
    from scenarios.c16 import make_chunker

    k = sim.k
    cfg = plan["secsi"]
    sim.probe("transport_secsi")
    line = sim.make_line(a="SIMA", b="SIMB")
    line.chunker = make_chunker({"chunk": cfg["chunk"], "chunk_gap": 0.0002}, random.Random(plan["seed"] ^ 0xC06))
    proto = secsienv.make_endpoint(sim, "SIMA", host=True, device_id=0, t3=T3)
    rec = secsienv.Recorder(sim, proto, "ep")
    peer = secsienv.SecsIPeer(sim, line, "SIMB")
    peer.is_master = True
    modes = {}
    for c, reqs in enumerate(cfg["callers"]):
        for i, (_think, mode, size) in enumerate(reqs):
            modes[_token(c, i)] = (mode, size)
    on_wire = {}     # token -> system
    replied = {}     # token -> reply body

    def on_message(msg):
        if (msg["stream"], msg["function"]) != (2, 25) or not msg["w"]:
            return
        try:
            token = rc.decode_body(msg["body"]).value
        except Exception:  # noqa: BLE001
            return
        on_wire[token] = msg["system"]
        mode, size = modes.get(token, ("now", 0))
        body = rc.enc(rc.b(token + bytes((token[3] + j) & 0xFF for j in range(size))))
        if size > 244:
            sim.probe("multi_block_reply")

        def send_reply():
            replied[token] = body
            blocks = rc.split_message(0, True, False, 2, 26, msg["system"], body)
            peer.send_blocks([b.encode() for b in blocks])

        if mode == "now":
            send_reply()
        elif mode.startswith("d"):
            k.schedule(float(mode[1:]), send_reply)
        else:
            sim.probe("reply_never")

    peer.on_message = on_message
    en = {"done": False}

    def enable():
        proto.enable()
        en["done"] = True

    sim.spawn(enable, "app_enable", role="app")
    if not sim.wait_until(lambda: en["done"], 5):
        sim.inconclusive("enable() did not return")
    sim.advance(0.1)
    results = {}
    calls = []

    def caller(c):
        for i, (think, _mode, _size) in enumerate(cfg["callers"][c]):
            if think:
                facades.time_facade.sleep(think)
            token = _token(c, i)
            r = {"t0": k.now, "res": "pending"}
            results[token] = r
            msg = proto.send_and_waitfor_response(sf.SecsS02F25(token))
            r["t1"] = k.now
            r["res"] = None if msg is None else (msg.header.system, msg.header.stream, msg.header.function, bytes(msg.data))

    for c in range(len(cfg["callers"])):
        done = {"done": False}
        calls.append(done)

        def body(c=c, done=done):
            caller(c)
            done["done"] = True

        sim.spawn(body, f"app_caller{c}", role="app")
    # unsolicited primaries from the equipment
    unsol = []
    t_base = sim.now
    for n, (t, size) in enumerate(sorted(cfg["unsol"])):
        if t_base + t > sim.now:
            sim.sleep(t_base + t - sim.now)
        body = rc.enc(rc.b(bytes([0xEE, n]) + bytes((n + j) & 0xFF for j in range(size))))
        system = 0x70000000 + n
        if size > 244:
            sim.probe("multi_block_unsolicited")
        unsol.append((system, body))
        peer.send_blocks([b.encode() for b in rc.split_message(0, True, False, 6, 111, system, body)])
    nreq = sum(len(r) for r in cfg["callers"])
    if not sim.wait_until(lambda: all(c["done"] for c in calls), 20 + nreq * (T3 + 3)):
        sim.violation("C06.R6", "a caller neither got its reply nor a timeout (SECS-I)", sig="C06.R6|caller-stuck|secsi")
    sim.advance(1.0)
    if peer.contentions:
        sim.probe("secsi_contention")
    if peer.errors:
        sim.inconclusive(f"line protocol errors seen by the reference peer (C17's subject): {peer.errors[:2]}")
    for token, r in results.items():
        mode, size = modes[token]
        if token not in on_wire:
            if r["res"] is not None:
                sim.violation("C06.R2", f"caller with token {token.hex()} got {r['res'][:3]} although its request never "
                              "reached the peer", sig="C06.R2|foreign-reply|secsi")
            continue
        if mode == "never":
            if r["res"] is not None:
                sim.violation("C06.R2", f"caller with token {token.hex()} got {r['res'][:3]} although nothing was sent "
                              "for it", sig="C06.R2|foreign-reply|secsi")
            continue
        want = (on_wire[token], 2, 26, replied.get(token))
        if r["res"] is None:
            sim.violation("C06.R2", f"caller with token {token.hex()} got a timeout although its reply ({len(want[3])} "
                          f"body bytes, {max(1, (len(want[3]) + 243) // 244)} blocks) was acknowledged on the line",
                          sig="C06.R2|reply-lost|secsi")
        if r["res"] != want:
            sim.violation("C06.R2", f"caller with token {token.hex()} (system {want[0]:#x}) received system "
                          f"{r['res'][0]:#x} S{r['res'][1]}F{r['res'][2]} with {len(r['res'][3])} body bytes, expected its "
                          f"own reply of {len(want[3])} bytes", sig="C06.R2|foreign-reply|secsi")
    got = [(m["system"], m["body"]) for m in rec.received if m["system"] >= 0x70000000]
    if got != unsol:
        sim.violation("C06.R4", f"unsolicited primaries sent {[(hex(s_), len(b)) for s_, b in unsol]}, delivered "
                      f"{[(hex(s_), len(b)) for s_, b in got]}", sig="C06.R4|" + (
                          "lost" if len(got) < len(unsol) else "duplicated-or-reordered") + "|secsi")
    stray = [m for m in rec.received if m["system"] < 0x70000000]
    if stray:
        sim.violation("C06.R3", f"a reply was handed to the application as an unsolicited message: "
                      f"{[(hex(m['system']), m['stream'], m['function']) for m in stray][:3]}", sig="C06.R3|reply-as-unsolicited|secsi")
    sim.nontrivial = True
    sim.abstract = ("secsi", [len(r) for r in cfg["callers"]], len(unsol), plan["sched"]["policy"])


def run(sim, plan):
    if plan.get("transport") == "secsi":
        return run_secsi(sim, plan)
    import secsgem.secs.functions as sf

    k = sim.k
    active = plan["active"]
    sim.make_net(latency=plan["latency"])
    ep = hsmsenv.Endpoint(sim, active, t3=T3, t5=plan["t5"], t6=2)
    proto = ep.proto
    if plan["counter"] == "wrap":
        proto._system_counter = 2 ** 32 - 3
        sim.probe("counter_wrap")
    elif plan["counter"] == "zero":
        proto._system_counter = 0
    # peer side ---------------------------------------------------------------------------------------
    req_by_token: dict = {}      # token -> dict(system, t_wire, seq, conn)
    replies_sent: dict = {}      # token -> list of times the reply reaches the endpoint
    modes = {}
    for c, reqs in enumerate(plan["callers"]):
        for i, (_think, mode) in enumerate(reqs):
            modes[_token(c, i)] = mode
    conn_no = {"n": 0}
    wire_requests = []  # (seq, t, system, token, conn)

    def on_frame(peer, fr):
        if fr.stype != 0 or not (fr.stream == 2 and fr.function == 25):
            return
        try:
            token = rc.decode_body(fr.body).value
        except Exception:  # noqa: BLE001
            return
        req_by_token.setdefault(token, {"system": fr.system, "t": k.now, "conn": peer.label})
        if not peer.selected:
            # a correct peer does not serve data messages outside the SELECTED state (E37): reject, no reply
            peer.send(rc.control(rc.REJECT_REQ, fr.system, b2=0, b3=4))
            sim.probe("request_before_select")
            return
        wire_requests.append((k.seq, k.now, fr.system, token, peer.label))
        mode = modes.get(token, "now")
        reply = rc.data(2, 26, False, fr.system, rc.enc(rc.b(token)))

        def send_reply():
            if peer.open:
                peer.send(reply)
                replies_sent.setdefault(token, []).append(k.now)

        if mode == "now":
            send_reply()
        elif mode.startswith("d"):
            k.schedule(float(mode[1:]), send_reply)
        elif mode == "late":
            sim.probe("reply_late")
            k.schedule(T3 + 0.5, send_reply)
        elif mode == "twice":
            sim.probe("reply_twice")
            send_reply()
            k.schedule(0.05, send_reply)
        else:
            sim.probe("reply_never")

    def configure(peer):
        conn_no["n"] += 1
        peer.auto_select = True
        peer.handlers.append(lambda fr, peer=peer: on_frame(peer, fr))

    listener = hsmsenv.PeerListener(sim, configure=configure) if active else None
    current = {"peer": None}

    def establish(timeout):
        """(Re)establish a selected link; returns the peer or None."""
        if active:
            ok = sim.wait_until(lambda: listener.peers and listener.peers[-1].open
                                and listener.peers[-1] is not current["peer"], timeout)
            if not ok:
                return None
            peer = listener.peers[-1]
        else:
            peer = None
            end = sim.now + timeout
            while peer is None and sim.now < end:
                peer = hsmsenv.connect_peer(sim, label=f"peer{conn_no['n'] + 1}")
                if peer is None:
                    sim.advance(0.2)
            if peer is None:
                return None
            configure(peer)
            sim.wait_until(lambda: ep.connected_n > ep.disconnected_n, 3)
            peer.send(rc.control(rc.SELECT_REQ, 0x5E1EC7 + conn_no["n"]))
        current["peer"] = peer
        if not sim.wait_until(lambda: ep.state == "CONNECTED_SELECTED", 6):
            current["tcp_up_but_not_selected"] = True
            return None
        return peer

    # application side ----------------------------------------------------------------------------------
    handler_log = []   # ("enter"/"exit", seq, system)
    depth = {"n": 0, "max": 0}
    hd = plan["handler_delay"]

    def on_message(data):
        m = data["message"]
        depth["n"] += 1
        depth["max"] = max(depth["max"], depth["n"])
        handler_log.append(("enter", k.seq, m.header.system, m.header.stream, m.header.function, bytes(m.data)))
        sim.log("handler-enter", m.header.system)
        if hd:
            facades.time_facade.sleep(hd)
        else:
            k.yield_point()
        handler_log.append(("exit", k.seq, m.header.system))
        depth["n"] -= 1

    proto.events.message_received += on_message
    proto.enable()
    peer = establish(8)
    if peer is None:
        sim.inconclusive("could not establish the first selected link")

    results = {}   # token -> dict(t0, t1, result)
    calls = []

    def caller(c):
        for i, (think, _mode) in enumerate(plan["callers"][c]):
            if isinstance(think, str):
                # issue the request right around the next link fault (inside the window in which sends fail)
                nxt = [t_base_box["t"] + ft for ft, _k in plan["faults"] if t_base_box["t"] + ft > k.now]
                if nxt:
                    delta = {"fault": 0.0, "fault-": -0.001, "fault+": 0.0005}[think]
                    facades.time_facade.sleep(max(0.0, nxt[0] + delta - k.now))
                    sim.probe("request_at_fault")
            elif think:
                facades.time_facade.sleep(think)
            token = _token(c, i)
            rec = {"t0": k.now, "t1": None, "res": "pending", "seq0": k.seq}
            results[token] = rec
            sim.log("call", c, i)
            msg = proto.send_and_waitfor_response(sf.SecsS02F25(token))
            rec["t1"] = k.now
            rec["seq1"] = k.seq
            if msg is None:
                rec["res"] = None
                sim.log("return", c, i, None)
            else:
                h = msg.header
                rec["res"] = (h.system, h.stream, h.function, bytes(msg.data))
                rec["stype"] = getattr(getattr(h, "s_type", None), "value", 0)
                sim.log("return", c, i, h.system)

    t_base_box = {"t": sim.now}
    for c in range(len(plan["callers"])):
        calls.append(ep.call_async(f"caller{c}", lambda c=c: caller(c)))
        if plan["start_stagger"]:
            sim.sleep(plan["start_stagger"])

    # timeline of faults and unsolicited primaries --------------------------------------------------------
    t_base = t_base_box["t"]
    events = [(t, 0, "fault", kind) for t, kind in plan["faults"]] + \
             [(t, 1, "unsol", kind) for t, kind in plan["unsolicited"]]
    events.sort(key=lambda e: (e[0], e[1]))
    unsol_sent = []  # (system, stream, function, body, t)
    fault_times = []
    fault_spans = []   # (fault start, link re-established)
    n_unsol = 0
    link_epochs = 1
    for t, _o, what, kind in events:
        if t_base + t > sim.now:
            sim.sleep(t_base + t - sim.now)
        if what == "unsol":
            peer = current["peer"]
            # only inject on a link that is up and stays up (no fault within the next second)
            if peer is None or not peer.open or ep.state != "CONNECTED_SELECTED":
                continue
            # (planned fault times may already be overdue when an earlier fault took long to play out)
            pending_faults = [t_base + ft for ft, _k in plan["faults"]][len(fault_times):]
            if any(ft < sim.now + 1.0 for ft in pending_faults) or any(abs(ft - sim.now) < 1.0 for ft in fault_times):
                continue
            n_unsol += 1
            system = 0x70000000 + n_unsol
            if kind == "S2F25":
                fr = rc.data(2, 25, True, system, rc.enc(rc.b(bytes([n_unsol, 0xEE]))))
            elif kind == "S10F3":
                fr = rc.data(10, 3, False, system, rc.enc(rc.ls(rc.b(1), rc.a(f"unsol{n_unsol}"))))
            elif kind == "S1F1":
                fr = rc.data(1, 1, True, system, b"")
            else:
                fr = rc.data(6, 111, False, system, rc.enc(rc.u4(n_unsol)))
            peer.send(fr)
            unsol_sent.append((system, fr.stream, fr.function, fr.body, sim.now))
        else:
            fault_times.append(sim.now)
            sim.fault(kind)
            peer = current["peer"]
            if kind == "peer_fin":
                peer.close()
            elif kind == "peer_partial_fin":
                # the link dies in the middle of a frame: >= 4 bytes of an unsolicited primary, then FIN
                fr = rc.data(10, 3, False, 0x7F000000 + len(fault_times), rc.enc(rc.ls(rc.b(1), rc.a("partial" * 6))))
                raw = fr.encode()
                peer.send_bytes(raw[:4 + (len(fault_times) * 7) % (len(raw) - 5)])
                sim.probe("partial_frame_at_link_loss")
                sim.advance(0.05)
                peer.close()
            elif kind == "peer_rst":
                peer.reset()
            else:
                dis = ep.call_async(f"disable{len(fault_times)}", proto.disable)
                if not sim.wait_until(lambda: dis["done"], 30):
                    sim.inconclusive("disable() did not return (C09's subject)")
                ep.call_async(f"enable{len(fault_times)}", proto.enable)
            sim.wait_until(lambda: ep.state == "NOT_CONNECTED", 10)
            peer = establish(plan["t5"] + 10)
            if peer is None:
                if current.get("tcp_up_but_not_selected"):
                    # the TCP connection is up again but the endpoint does not serve it: nothing sent on the
                    # re-established link is handed to the application
                    sim.violation("C06.R4", f"after the link was lost ({kind}) and re-established the endpoint does not "
                                  f"answer the Select procedure any more (state {ep.state}); no message can be delivered",
                                  sig="C06.R4|no-service-after-reconnect|" + kind)
                sim.inconclusive("link could not be re-established (C09's subject)")
            link_epochs += 1
            fault_spans.append((fault_times[-1], sim.now))
            sim.probe("reconnects")

    # wait for the callers ---------------------------------------------------------------------------------
    bound = T3 + 2 + plan["t5"] + 20
    if not sim.wait_until(lambda: all(c["done"] for c in calls), bound + 8 * T3):
        stuck = [th for th in sim.blocked_report() if th["role"] == "app"]
        tops = sorted({th["stack"][-1] for th in stuck if th["stack"]})
        sim.violation("C06.R6", f"a caller neither got its reply nor a timeout within {bound + 8 * T3:.0f} virtual s; "
                      f"stuck in {tops}", sig="C06.R6|caller-stuck|" + "+".join(tops))
    sim.advance(T3 + 1.5)  # let late replies arrive
    for c_i, c in enumerate(calls):
        if c["exc"] is not None:
            sim.violation("C06.R2", f"caller {c_i}: send_and_waitfor_response raised {c['exc']} instead of returning its "
                          "reply or None", sig="C06.R2|caller-exception|" + c["exc"].split("(")[0])

    # ---------------------------------------------------------------------------------------------- oracles
    # R1: distinct system bytes among simultaneously outstanding requests
    outstanding = []
    for (seq, t, system, token, conn) in wire_requests:
        rec = results.get(token)
        t1 = rec["t1"] if rec and rec["t1"] is not None else float("inf")
        outstanding.append((t, t1, system, token))
    overl = 0
    for i in range(len(outstanding)):
        for j in range(i + 1, len(outstanding)):
            a, b = outstanding[i], outstanding[j]
            if a[0] < b[1] and b[0] < a[1]:
                overl += 1
                if a[2] == b[2] and a[3] != b[3]:
                    sim.violation("C06.R1", f"two requests outstanding at the same time carry the same system bytes "
                                  f"{a[2]:#x} (tokens {a[3].hex()} and {b[3].hex()}, pre-emption class "
                                  f"{plan['sched'].get('preempt')})", sig="C06.R1|duplicate-system-bytes")
    if overl:
        sim.probe("two_outstanding")
        sim.nontrivial = True
    # detect permuted replies
    arrivals = sorted((ts[0], tok) for tok, ts in replies_sent.items())
    sends = sorted((req_by_token[tok]["t"], tok) for tok in replies_sent if tok in req_by_token)
    if [x[1] for x in arrivals] != [x[1] for x in sends]:
        sim.probe("reply_permuted")
    # R2: a caller never gets anything but its own reply; it gets its reply when that arrived in time on a live link
    for token, rec in results.items():
        res = rec["res"]
        req = req_by_token.get(token)
        if res == "pending":
            continue
        if res is not None:
            system, s, f, body = res
            ok = (s, f) == (2, 26) and body == rc.enc(rc.b(token)) and req is not None and system == req["system"]
            if rec.get("stype") == rc.REJECT_REQ and req is not None and system == req["system"]:
                ok = True  # the peer rejected this very transaction: it is the caller's own (negative) answer
                sim.probe("caller_got_reject")
            if not ok:
                sim.violation("C06.R2", f"caller with token {token.hex()} (system "
                              f"{req['system'] if req else None}) received a foreign reply: system={system:#x} "
                              f"S{s}F{f} body={body.hex()}", sig="C06.R2|foreign-reply")
        else:
            # None: acceptable unless the reply demonstrably reached the endpoint well inside T3 on an undisturbed link
            if req is None:
                continue
            arr = replies_sent.get(token, [])
            disturbed = any(a - 0.2 <= req["t"] + T3 and req["t"] <= b + 0.2 for (a, b) in fault_spans)
            if arr and not disturbed and arr[0] + plan["latency"] <= req["t"] + T3 - 0.5:
                sim.violation("C06.R2", f"caller with token {token.hex()} got a timeout although its reply arrived "
                              f"{arr[0] - req['t']:.3f}s after the request on a healthy link (T3={T3})",
                              sig="C06.R2|reply-lost")
    # R3/R4: message_received events
    enters = [e for e in handler_log if e[0] == "enter"]
    reply_systems = {req["system"]: tok for tok, req in req_by_token.items()}
    delivered_unsol = []
    for (_e, seq, system, s, f, body) in enters:
        if (s, f) == (2, 26) and system in reply_systems:
            tok = reply_systems[system]
            rec = results.get(tok)
            arr = replies_sent.get(tok, [])
            # a reply may surface here only when no waiter existed any more (late, duplicate, caller gave up)
            got_it = rec is not None and rec["res"] not in (None, "pending")
            n_enters = sum(1 for x in enters if x[2] == system and (x[3], x[4]) == (2, 26))
            if got_it and n_enters > max(0, len(arr) - 1):
                sim.violation("C06.R3", f"reply for token {tok.hex()} was returned to its caller and also delivered "
                              "as an unsolicited message", sig="C06.R3|reply-also-delivered")
            continue
        delivered_unsol.append((system, s, f, body))
    want = [(u[0], u[1], u[2], u[3]) for u in unsol_sent]
    # requests of the peer (S2F25 W etc.) are simply delivered; compare as sequences
    if delivered_unsol != want:
        missing = [w for w in want if w not in delivered_unsol]
        dup = [d for d in delivered_unsol if delivered_unsol.count(d) > 1]
        kind = "lost" if missing else "duplicated" if dup else "reordered" if sorted(delivered_unsol) == sorted(want) \
            else "unexpected"
        sim.violation("C06.R4", f"unsolicited primaries delivered {len(delivered_unsol)}, sent {len(want)} ({kind}); "
                      f"sent systems {[hex(w[0]) for w in want][:8]}, delivered {[hex(d[0]) for d in delivered_unsol][:8]}",
                      sig=f"C06.R4|{kind}")
    if want:
        sim.probe("unsolicited_delivered", len(want))
    if depth["max"] > 1:
        sim.violation("C06.R4", f"message_received handlers overlapped (nesting depth {depth['max']}) after "
                      f"{link_epochs - 1} reconnects", sig="C06.R4|handlers-overlap")
    # R5: thread population at quiescence
    roles = {}
    for th in k.threads:
        if th.state != "done":
            roles[th.role] = roles.get(th.role, 0) + 1
    if roles.get("protocol_dispatcher", 0) > 1 or roles.get("protocol_receiver", 0) > 1:
        sim.violation("C06.R5", f"thread population at quiescence after {link_epochs - 1} reconnects: {roles}",
                      sig="C06.R5|" + ("two-dispatchers" if roles.get("protocol_dispatcher", 0) > 1 else "two-receivers"))
    mode_multiset = sorted(m for reqs in plan["callers"] for (_t, m) in reqs)
    sim.abstract = (len(plan["callers"]), mode_multiset, len(plan["faults"]), min(len(want), 4),
                    plan["sched"]["policy"], plan["sched"].get("preempt"), active, plan["counter"])

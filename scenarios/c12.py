"""C12 - event-report configuration stays consistent and transactional under any history.

Real: CollectionEventCapability (reports, links, enable flags, S6F11 sender threads), status/data value providers,
the HSMS stack.  Stub: SimSocket, scripted host.  Oracle: E5 report/link model (DESIGN.md B.4), every reply decoded by
the independent E5 decoder.
"""

from __future__ import annotations

from simkit import facades, gemenv, refcodec as rc

PROP = "C12"
SHRINK = ("ops",)
LIMITS = {"max_steps": 800_000, "max_vtime": 2000.0}
BUDGET = {
    "quick": {"runs": 3500, "wall": 150, "chunk": 40, "minimise": 150},
    "thorough": {"runs": 150_000, "wall": 1500, "chunk": 100, "minimise": 300},
}
REQUIRED_PROBES = {"quick": ("define_refused", "define_ok", "delete_one", "delete_all", "link_refused", "link_ok",
                             "unlink", "dup_rptid_in_link", "trigger_enabled", "trigger_disabled", "s6f15",
                             "delete_linked_report", "transport_secsi", "trigger_reconf_delete_later"),
                   "thorough": ("define_refused", "define_ok", "delete_one", "delete_all", "link_refused", "link_ok",
                                "unlink", "dup_rptid_in_link", "trigger_enabled", "trigger_disabled", "s6f15",
                                "delete_linked_report", "transport_secsi", "trigger_reconf_delete_later")}
EVIDENCE = {
    "level": "exploration",
    "rule": ("seeded sequences of S2F33 (define one/many, delete one, delete all, unknown VID, redefinition), "
             "S2F35 (link, unlink, duplicates inside one request, unknown CEID/RPTID, already linked), S2F37 "
             "(listed/all/unknown), S6F15, application-side triggers and variable updates over RPTID in {1,2,3}, "
             "CEID in {1,2,20,50,99}, VID in {10,11,30,1002,9999}; triggers of several events per call with the "
             "first S6F12 withheld or a later event disabled/unlinked meanwhile; after every operation S6F15 is "
             "requested for every known CEID; non-trivial = at least one accepted define and one accepted link; "
             "distinct = distinct op-kind sequences"),
    "real": ["secsgem.gem.CollectionEventCapability", "secsgem.gem.StatusDataCollectionCapability",
             "secsgem.gem.DataValueCapability", "secsgem.gem.GemEquipmentHandler", "secsgem.hsms.HsmsProtocol", "secsgem.secsi.SecsIProtocol + SerialConnection (a fifth of the runs)"],
    "stub": ["socket/select (SimSocket)", "serial.Serial (SimLine) with the reference E4 peer", "scripted host (reference codecs)"],
    "assumptions": ["where E5 leaves the outcome open (redefinition of an existing RPTID, linking further reports to a "
                    "linked event, duplicates inside a link list, S2F37 with unknown ids) the model follows the "
                    "acknowledge code the equipment gave and checks that the effect matches it",
                    "for an event that is linked but not (known to be) enabled an empty RPT list in S6F16 is accepted too",
                    "define requests never name the same RPTID twice (E5 does not say which definition wins)"],
}

SCHEDS = [
    {"policy": "sticky", "preempt": "line"},
    {"policy": "random", "p": 0.05, "preempt": "line"},
    {"policy": "random", "p": 0.3, "preempt": "line"},
    {"policy": "pct", "d": 2, "horizon": 3000, "preempt": "line"},
    {"policy": "rr", "q": 3, "preempt": "line"},
    {"policy": "random", "p": 0.5, "preempt": "sync"},
    {"policy": "pct", "d": 2, "horizon": 150, "preempt": "sync"},
]
RPTIDS = [1, 2, 3]
CEIDS = [1, 2, 20, 50, 99]
KNOWN_CEIDS = [1, 2, 20, 50]
VIDS = [10, 11, 30, 1002, 9999]
T3 = 2.0


def gen_plan(rng, tier, index):
    ops = []
    if rng.random() < 0.7:
        # productive preamble: valid reports, some links, events enabled - the interesting histories start from here
        ops.append(["define", [[rid, [rng.choice(VIDS[:4]) for _ in range(rng.choice([1, 2]))]]
                               for rid in rng.sample(RPTIDS, rng.choice([2, 3]))]])
        defined = [e[0] for e in ops[0][1]]
        for ce in rng.sample(KNOWN_CEIDS, rng.choice([1, 2, 3])):
            ops.append(["link", [[ce, [rng.choice(defined) for _ in range(rng.choice([1, 1, 2, 3]))]]]])
        ops.append(["enable", True, []])
    for _ in range(rng.choice([3, 6, 10, 16, 25, 40])):
        r = rng.random()
        if r < 0.25:
            kind = rng.random()
            if kind < 0.1:
                ops.append(["define", []])
            else:
                ents = []
                for rid in rng.sample(RPTIDS, rng.choice([1, 1, 2, 3])):
                    if rng.random() < 0.25:
                        ents.append([rid, []])
                    else:
                        ents.append([rid, [rng.choice(VIDS if rng.random() < 0.12 else VIDS[:4])
                                           for _ in range(rng.choice([1, 1, 2, 3]))]])
                ops.append(["define", ents])
        elif r < 0.5:
            ents = []
            for ce in rng.sample(CEIDS if rng.random() < 0.3 else KNOWN_CEIDS, rng.choice([1, 1, 2])):
                if rng.random() < 0.2:
                    ents.append([ce, []])
                else:
                    ents.append([ce, [rng.choice(RPTIDS + [7] if rng.random() < 0.08 else RPTIDS)
                                      for _ in range(rng.choice([1, 1, 2, 2, 3]))]])
            ops.append(["link", ents])
        elif r < 0.65:
            ops.append(["enable", rng.random() < 0.75, rng.choice([[], [rng.choice(CEIDS)], rng.sample(CEIDS, 2)])])
        elif r < 0.78:
            ops.append(["trigger", rng.choice(KNOWN_CEIDS)])
        elif r < 0.85:
            # several events in one call; the host may withhold the S6F12 of the first report or reconfigure a later event
            # while the first report is still unacknowledged
            ops.append(["trigger_multi", rng.sample(KNOWN_CEIDS, rng.choice([2, 3, 3])),
                        rng.choice(["plain", "withhold", "disable_mid", "unlink_mid"])])
        elif r < 0.88:
            # a report is deleted / an event unlinked or disabled by the host while the equipment's sender thread is
            # still assembling the event report (it sits in a slow status variable callback of the first report)
            ops.append(["trigger_reconf", rng.choice(KNOWN_CEIDS), rng.choice(["delete_later", "delete_later", "disable",
                                                                               "none"])])
        elif r < 0.93:
            ops.append(["setval", rng.choice([10, 11, 30]), rng.randrange(1000)])
        else:
            ops.append(["s6f15", rng.choice(CEIDS)])
    plan = {"ops": ops, "active": rng.random() < 0.3, "latency": rng.choice([0.0, 0.0005, 0.01]),
            "check_all_every": rng.choice([1, 1, 2])}
    plan["transport"] = rng.choice(["hsms", "hsms", "hsms", "hsms", "secsi"])
    sched = dict(rng.choice(SCHEDS))
    sched["seed"] = rng.getrandbits(48)
    plan["sched"] = sched
    return plan


def sample_view(plan):
    return plan


def shrink_candidates(plan):
    for i, op in enumerate(plan["ops"]):
        if op[0] in ("define", "link") and len(op[1]) > 1:
            for j in range(len(op[1])):
                yield dict(plan, ops=plan["ops"][:i] + [[op[0], op[1][:j] + op[1][j + 1:]]] + plan["ops"][i + 1:])
        if op[0] == "link":
            for j, (ce, rpts) in enumerate(op[1]):
                if len(rpts) > 1:
                    new = [list(e) for e in op[1]]
                    new[j] = [ce, rpts[:-1]]
                    yield dict(plan, ops=plan["ops"][:i] + [["link", new]] + plan["ops"][i + 1:])


def run(sim, plan):
    import secsgem.gem
    import secsgem.secs.variables as var

    sim.make_net(latency=plan["latency"])
    transport = plan.get("transport", "hsms")
    line = sim.make_line(a="SIMA", b="SIMB") if transport == "secsi" else None
    if transport == "secsi":
        sim.probe("transport_secsi")
    env = gemenv.GemEnv(sim, role="equipment", active=plan["active"], t3=T3, delay=1, transport=transport, line=line,
                        initial_control_state="ONLINE", initial_online_control_state="REMOTE")
    eq = env.handler
    eq.status_variables[10] = secsgem.gem.StatusVariable(10, "sv10", "mm", var.U4, False)
    eq.status_variables[10].value = 7
    eq.status_variables[11] = secsgem.gem.StatusVariable(11, "sv11", "", var.String, False)
    eq.status_variables[11].value = "init"
    eq.data_values[30] = secsgem.gem.DataValue(30, "dv30", var.U4, False)
    eq.data_values[30].value = 3
    eq.collection_events[50] = secsgem.gem.CollectionEvent(50, "custom", [30])
    values = {10: rc.u4(7), 11: rc.a("init"), 30: rc.u4(3), 1002: rc.b(5), 12: rc.u4(77)}
    # status variable 12 is answered by an application callback that can be slow
    eq.status_variables[12] = secsgem.gem.StatusVariable(12, "sv12", "", var.U4, True)
    slow = {"on": False, "entered": 0}

    def sv_cb(_svid, _sv):
        if slow["on"]:
            slow["on"] = False
            slow["entered"] += 1
            facades.time_facade.sleep(0.4)
        return var.U4(77)

    eq.on_sv_value_request = sv_cb
    env.start()
    peer = env.establish()
    if peer is None:
        sim.inconclusive("communication not established")

    reports: dict = {}
    links: dict = {}
    enabled: dict = {}    # ceid -> True / False / None (either)
    hist = []
    seen11 = {"n": len(peer.of(6, 11))}
    flags = {"defined": False, "linked": False}

    def ack_of(rep, s, f):
        if rep is None:
            sim.violation("C12.R0", f"no reply to S{s}F{f - 1}", sig=f"C12.R0|no-reply-s{s}f{f - 1}")
        if (rep.stream, rep.function) != (s, f):
            sim.violation("C12.R3", f"S{s}F{f - 1} answered with S{rep.stream}F{rep.function}; history {hist[-5:]}",
                          sig=f"C12.R3|s{s}f{f - 1}-answered-s{rep.stream}f{rep.function}")
        return rc.decode_body(rep.body).value[0]

    def expected_rpt(ceid):
        return [(rid, [values[v] for v in reports[rid]]) for rid in links.get(ceid, [])]

    def parse_report(item):
        """S6F11/S6F16 body -> (ceid, [(rptid, [value items])])"""
        ceid = item.value[1].plain()
        rpts = []
        for r in item.value[2].value:
            rpts.append((r.value[0].plain(), list(r.value[1].value)))
        return ceid, rpts

    def check_s6f15(ceid, where):
        rep = peer.request(6, 15, rc.u4(ceid), timeout=T3 + 1)
        if rep is None:
            sim.violation("C12.R3", f"{where}: S6F15({ceid}) got no reply; history {hist[-5:]}", sig="C12.R3|s6f15-no-reply")
        if (rep.stream, rep.function) != (6, 16):
            dangling = [r for r in links.get(ceid, []) if r not in eq.registered_reports]
            sim.violation("C12.R3", f"{where}: S6F15({ceid}) answered with S{rep.stream}F{rep.function} instead of S6F16; "
                          f"model links {links.get(ceid)}; equipment links "
                          f"{[(c, list(l.reports)) for c, l in eq.registered_collection_events.items()]}, reports "
                          f"{sorted(map(str, eq.registered_reports))}; history {hist[-6:]}",
                          sig="C12.R3|s6f15-aborted|" + ("dangling-link" if _dangling(eq) else "other"))
        try:
            got_ceid, got = parse_report(rc.decode_body(rep.body))
        except Exception as exc:  # noqa: BLE001
            sim.violation("C12.R3", f"{where}: S6F16 for {ceid} is not well-formed: {exc!r} {rep.body.hex()}",
                          sig="C12.R3|s6f16-malformed")
        want = expected_rpt(ceid) if ceid in links else []
        if got_ceid != ceid:
            sim.violation("C12.R3", f"S6F16 CEID {got_ceid} for request {ceid}", sig="C12.R3|s6f16-wrong-ceid")
        if got != want:
            if not got and enabled.get(ceid) is not True:
                sim.probe("s6f16_empty_for_not_enabled")
                return
            sim.violation("C12.R3", f"{where}: S6F16({ceid}) reports {got}, model expects {want} (links {links.get(ceid)}, "
                          f"reports {reports}); history {hist[-6:]}", sig="C12.R3|s6f16-content|" + _diff_kind(got, want))
        if got and enabled.get(ceid) is None:
            enabled[ceid] = True   # reports delivered: the event is evidently enabled

    def new_s6f11():
        frames = peer.of(6, 11)[seen11["n"]:]
        seen11["n"] += len(frames)
        return [parse_report(rc.decode_body(fr.body)) for fr in frames]

    hold = {"on": False, "held": []}

    def s6f11(fr):
        if hold["on"]:
            hold["on"] = False
            hold["held"].append(fr)
            return None
        return rc.data(6, 12, False, fr.system, rc.enc(rc.b(0)))

    peer.auto[(6, 11)] = s6f11

    def run_op(op):
        kind = op[0]
        if kind == "define":
            ents = op[1]
            body = rc.ls(rc.u4(0), rc.ls(*[rc.ls(rc.u4(rid), rc.ls(*[rc.u4(v) for v in vids])) for rid, vids in ents]))
            ack = ack_of(peer.request(2, 33, body, timeout=T3 + 1), 2, 34)
            unknown_vid = any(v not in values for _r, vids in ents for v in vids)
            if unknown_vid and ack == 0:
                sim.violation("C12.R2", f"S2F33 naming an unknown VID was accepted (DRACK 0): {ents}",
                              sig="C12.R2|unknown-vid-accepted")
            if ack == 0:
                if not ents:
                    sim.probe("delete_all")
                    reports.clear()
                    links.clear()
                    enabled.clear()
                for rid, vids in ents:
                    if not vids:
                        sim.probe("delete_one")
                        if any(rid in l for l in links.values()):
                            sim.probe("delete_linked_report")
                        reports.pop(rid, None)
                        for ce in list(links):
                            links[ce] = [r for r in links[ce] if r != rid]
                            if not links[ce]:
                                del links[ce]
                                enabled.pop(ce, None)
                    else:
                        sim.probe("define_ok")
                        flags["defined"] = True
                        reports[rid] = list(vids)
            else:
                sim.probe("define_refused")
        elif kind == "link":
            ents = op[1]
            body = rc.ls(rc.u4(0), rc.ls(*[rc.ls(rc.u4(ce), rc.ls(*[rc.u4(r) for r in rpts])) for ce, rpts in ents]))
            ack = ack_of(peer.request(2, 35, body, timeout=T3 + 1), 2, 36)
            bad = any(ce not in KNOWN_CEIDS for ce, _ in ents) or any(r not in reports for _c, rpts in ents for r in rpts)
            if bad and ack == 0:
                sim.violation("C12.R2", f"S2F35 naming an unknown CEID or RPTID was accepted (LRACK 0): {ents}; reports "
                              f"{sorted(reports)}", sig="C12.R2|unknown-id-linked")
            if any(len(set(rpts)) < len(rpts) for _c, rpts in ents):
                sim.probe("dup_rptid_in_link")
            if ack == 0:
                for ce, rpts in ents:
                    if not rpts:
                        sim.probe("unlink")
                        links.pop(ce, None)
                        enabled.pop(ce, None)
                    else:
                        sim.probe("link_ok")
                        flags["linked"] = True
                        if ce in links:
                            links[ce] = links[ce] + list(rpts)
                        else:
                            links[ce] = list(rpts)
                            enabled[ce] = False if ce not in enabled else enabled[ce]
            else:
                sim.probe("link_refused")
        elif kind == "enable":
            ceed, ceids = op[1], op[2]
            body = rc.ls(rc.boolean(ceed), rc.ls(*[rc.u4(c) for c in ceids]))
            ack = ack_of(peer.request(2, 37, body, timeout=T3 + 1), 2, 38)
            if ack == 0:
                for ce in (ceids or list(links)):
                    if ce in links:
                        enabled[ce] = ceed
            else:
                for ce in ceids:
                    if ce in links:
                        enabled[ce] = None

    for op in plan["ops"]:
        kind = op[0]
        hist.append(op)
        if kind in ("define", "link", "enable"):
            run_op(op)
        elif kind == "setval":
            vid, n = op[1], op[2]
            if vid == 11:
                eq.status_variables[11].value = f"v{n}"
                values[11] = rc.a(f"v{n}")
            elif vid == 10:
                eq.status_variables[10].value = n
                values[10] = rc.u4(n)
            else:
                eq.data_values[30].value = n
                values[30] = rc.u4(n)
            continue
        elif kind == "trigger":
            ceid = op[1]
            new_s6f11()
            eq.trigger_collection_events([ceid])
            sim.advance(0.4)
            got = new_s6f11()
            en = enabled.get(ceid) if ceid in links else False
            want = expected_rpt(ceid) if ceid in links else None
            if en is True:
                sim.probe("trigger_enabled")
                if len(got) != 1:
                    sim.violation("C12.R4", f"trigger of enabled event {ceid} produced {len(got)} S6F11 (links "
                                  f"{links.get(ceid)}, equipment reports {sorted(map(str, eq.registered_reports))}); history "
                                  f"{hist[-6:]}", sig=f"C12.R4|s6f11-count-{min(len(got), 2)}|" +
                                  ("dangling-link" if _dangling(eq) else "other"))
            elif en is False:
                sim.probe("trigger_disabled")
                if got:
                    sim.violation("C12.R4", f"trigger of a disabled/unlinked event {ceid} produced S6F11 {got}",
                                  sig="C12.R4|s6f11-for-disabled")
            else:
                if len(got) > 1:
                    sim.violation("C12.R4", f"trigger of event {ceid} produced {len(got)} S6F11", sig="C12.R4|s6f11-count-2|other")
                enabled[ceid] = bool(got)
            for (c, rp) in got:
                if c != ceid or rp != want:
                    sim.violation("C12.R4", f"S6F11 for event {ceid} carries CEID {c} reports {rp}, model expects {want}",
                                  sig="C12.R4|s6f11-content")
        elif kind == "trigger_multi":
            ceids, mode = op[1], op[2]
            new_s6f11()
            if any(c in links and enabled.get(c) is None for c in ceids):
                continue        # the model does not know whether these are enabled

            def is_on(c):
                return c in links and enabled.get(c) is True

            first_on = next((c for c in ceids if is_on(c)), None)
            want = []
            if mode == "plain" or first_on is None:
                want = [(c, expected_rpt(c)) for c in ceids if is_on(c)]
                eq.trigger_collection_events(list(ceids))
                sim.advance(0.5)
            else:
                sim.probe("trigger_multi_" + mode)
                rest = ceids[ceids.index(first_on) + 1:]
                want.append((first_on, expected_rpt(first_on)))
                hold["on"] = True
                del hold["held"][:]
                eq.trigger_collection_events(list(ceids))
                if not sim.wait_until(lambda: hold["held"], 2.0):
                    hold["on"] = False
                    sim.violation("C12.R4", f"trigger of {ceids}: no S6F11 for enabled event {first_on}",
                                  sig="C12.R4|s6f11-count-0|multi")
                if mode in ("disable_mid", "unlink_mid") and rest:
                    # while the first report waits for its S6F12 the host reconfigures the next event of the same call
                    victim = rest[0]
                    sub = ["enable", False, [victim]] if mode == "disable_mid" else ["link", [[victim, []]]]
                    hist.append(sub)
                    run_op(sub)
                if mode == "withhold":
                    sim.advance(T3 + 0.6)      # the report stays unacknowledged: the sender gives up after T3
                else:
                    peer.hp.send(rc.data(6, 12, False, hold["held"][0].system, rc.enc(rc.b(0))))
                    sim.advance(0.5)
                want += [(c, expected_rpt(c)) for c in rest if is_on(c)]
                sim.advance(0.3)
            got = new_s6f11()
            if got != want:
                sim.violation("C12.R4", f"trigger of {ceids} ({mode}): S6F11 sent for {[g[0] for g in got]}, expected "
                              f"{[w[0] for w in want]}" + ("" if [g[0] for g in got] != [w[0] for w in want] else
                                                          f"; contents {got} vs {want}") + f"; history {hist[-5:]}",
                              sig=f"C12.R4|multi-{mode}|" + ("events" if [g[0] for g in got] != [w[0] for w in want]
                                                               else "content"))
        elif kind == "trigger_reconf":
            ceid, mode = op[1], op[2]
            # known configuration: event linked to report 1 (slow variable 12 first) and report 2
            for sub in (["define", []], ["define", [[1, [12, 10]], [2, [30]]]], ["link", [[ceid, [1, 2]]]],
                        ["enable", True, [ceid]]):
                hist.append(sub)
                run_op(sub)
            if links.get(ceid) != [1, 2] or enabled.get(ceid) is not True:
                sim.violation("C12.R3", f"set-up of a fresh configuration was refused; history {hist[-6:]}",
                              sig="C12.R3|fresh-config-refused")
            new_s6f11()
            before = expected_rpt(ceid)
            slow["on"] = True
            n0 = slow["entered"]
            sim.focus(2)
            eq.trigger_collection_events([ceid])
            if not sim.wait_until(lambda: slow["entered"] > n0, 2.0):
                slow["on"] = False
                sim.violation("C12.R4", f"trigger of enabled event {ceid}: its report was never assembled",
                              sig="C12.R4|s6f11-count-0|reconf")
            sim.probe("trigger_reconf_" + mode)
            if mode == "delete_later":
                sub = ["define", [[2, []]]]
            elif mode == "disable":
                sub = ["enable", False, [ceid]]
            else:
                sub = None
            if sub is not None:
                hist.append(sub)
                run_op(sub)           # answered while the sender thread is still inside the slow callback
            sim.advance(0.9)
            got = new_s6f11()
            after = expected_rpt(ceid) if ceid in links else []
            # the event was enabled and linked when it was triggered: exactly one report, built from the
            # configuration before or after the host's concurrent request
            if len(got) != 1 or got[0][0] != ceid or got[0][1] not in (before, after):
                sim.violation("C12.R4", f"trigger of enabled event {ceid} with a concurrent {mode}: S6F11 {got}, expected one "
                              f"report with {before} or {after}; history {hist[-4:]}",
                              sig=f"C12.R4|reconf-{mode}|" + ("count-%d" % min(len(got), 2) if len(got) != 1 else "content"))
        elif kind == "s6f15":
            sim.probe("s6f15")
            check_s6f15(op[1], "s6f15 op")
            continue
        # after every configuration change: every known event must still produce a well-formed report
        for ceid in KNOWN_CEIDS:
            check_s6f15(ceid, f"after {kind}")
    # R5: internal cross-check
    if _dangling(eq):
        sim.violation("C12.R5", f"links reference reports that do not exist: "
                      f"{[(c, list(l.reports)) for c, l in eq.registered_collection_events.items()]} vs "
                      f"{sorted(map(str, eq.registered_reports))}", sig="C12.R5|dangling-link")
    sim.nontrivial = flags["defined"] and flags["linked"]
    sim.abstract = [o[0] if o[0] not in ("define", "link") else (o[0], len(o[1])) for o in plan["ops"]][:20]


def _dangling(eq):
    return any(r not in eq.registered_reports for l in eq.registered_collection_events.values() for r in l.reports)


def _diff_kind(got, want):
    if [g[0] for g in got] != [w[0] for w in want]:
        if sorted(g[0] for g in got) == sorted(w[0] for w in want):
            return "report-order"
        return "report-set"
    return "values"

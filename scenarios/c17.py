"""C17 - the SECS-I line protocol delivers accepted messages intact and once, and NAKs bad blocks.

Real: two SecsIProtocol endpoints (host + equipment) on real SerialConnection objects over a simulated half-duplex
line; in a share of runs one endpoint is the reference E4 peer.  Stub: fake serial.Serial / SimLine with seeded
chunking and single-byte corruption.  Oracle: E4 handshake monitor on the line tap + delivery comparison.
"""

from __future__ import annotations

import random

from simkit import refcodec as rc, secsienv

PROP = "C17"
SHRINK = ("messages",)
LIMITS = {"max_steps": 1_500_000, "max_vtime": 20000.0}
BUDGET = {
    "quick": {"runs": 2500, "wall": 150, "chunk": 30, "minimise": 100},
    "thorough": {"runs": 120_000, "wall": 1500, "chunk": 100, "minimise": 200},
}
REQUIRED_PROBES = {"quick": ("multi_block", "both_directions", "chunked", "corrupt_first", "corrupt_middle",
                             "corrupt_last", "nak_seen", "message_after_nak", "concurrent_senders"),
                   "thorough": ("multi_block", "both_directions", "chunked", "corrupt_first", "corrupt_middle",
                                "corrupt_last", "nak_seen", "message_after_nak", "concurrent_senders")}
EVIDENCE = {
    "level": "exploration",
    "rule": ("seeded sequences of single- and multi-block messages in both directions (one initiation at a time), "
             "seeded chunking of the line byte stream (1 byte .. whole block, with gaps) and at most one corrupted "
             "byte in header/data/checksum of a chosen block per message, threads descheduled just before a "
             "synchronisation call; at the end of a third of the runs two threads of one side send two messages at "
             "the same time (interleaved blocks); non-trivial = chunked line or a corrupted block; distinct = distinct (mode, "
             "chunk mode, per-message (direction, #blocks, corrupt class)) tuples"),
    "real": ["secsgem.secsi.SecsIProtocol (both endpoints, or one against the reference peer)",
             "secsgem.common.SerialConnection", "secsgem.common.ProtocolDispatcher", "secsgem.common.ByteQueue"],
    "stub": ["serial.Serial on a simulated line", "reference E4 peer in a share of runs"],
    "assumptions": ["only one side initiates a transfer at a time (contention, T1/T2/T4 and RTY are outside the statement)",
                    "the length byte of a block is never corrupted"],
}

SCHEDS = [
    {"policy": "sticky", "preempt": "line"},
    {"policy": "random", "p": 0.1, "preempt": "line"},
    {"policy": "pct", "d": 2, "horizon": 3000, "preempt": "line"},
    {"policy": "rr", "q": 3, "preempt": "line"},
    {"policy": "random", "p": 0.2, "preempt": "sync"},
    {"policy": "random", "p": 0.5, "preempt": "sync"},
    {"policy": "pct", "d": 2, "horizon": 150, "preempt": "sync"},
]
# (11, 255, 499: the length byte of the last block equals NAK = 0x15)
LENS = [0, 1, 10, 11, 243, 244, 245, 255, 488, 489, 499, 600, 732, 1000]


def gen_plan(rng, tier, index):
    msgs = []
    for _ in range(rng.choice([1, 2, 3, 5, 8])):
        n = rng.choice(LENS) if rng.random() < 0.8 else rng.randrange(0, 3000)
        nblocks = max(1, (n + 243) // 244)
        corrupt = None
        if rng.random() < 0.35:
            b = rng.randrange(nblocks)
            blen = min(244, n - 244 * b) if n else 0
            pos = rng.randrange(1, 13 + blen)
            corrupt = [b, pos, rng.choice([0x01, 0x80, 0xFF, rng.randrange(1, 256)])]
        msgs.append([rng.randrange(2), n, rng.choice([1, 5, 7, 64]), rng.choice([1, 3, 13, 255]), rng.random() < 0.4,
                     rng.getrandbits(32), corrupt])
    plan = {"mode": rng.choice(["two_real", "two_real", "ref_peer"]), "messages": msgs,
            "chunk": rng.choice(["whole", "bytes", "random", "small", "random"]),
            "chunk_gap": rng.choice([0, 0.0002, 0.004]), "a_is_host": rng.random() < 0.5, "device": rng.choice([0, 7, 0x7FFF])}
    # at the end two application threads of one side send two messages at the same time (their blocks interleave on
    # the line; still only one side transmits)
    plan["pair"] = [rng.randrange(2), rng.choice([10, 245, 300, 489, 700, 1000]), rng.choice([0, 244, 250, 500, 733]),
                    rng.getrandbits(32)] if rng.random() < 0.35 else None
    sched = dict(rng.choice(SCHEDS))
    sched["seed"] = rng.getrandbits(48)
    if rng.random() < 0.4:
        # fault: a thread is descheduled for a moment just before one of its synchronisation calls
        sched["sync_stall"] = {"n": rng.choice([1, 2, 4, 8]), "horizon": rng.choice([50, 200, 800, 3000]),
                               "durs": [0.002, 0.03]}
    plan["sched"] = sched
    return plan


def sample_view(plan):
    return plan


def shrink_candidates(plan):
    if plan["chunk"] != "whole":
        yield dict(plan, chunk="whole")
    for i, m in enumerate(plan["messages"]):
        if m[6] is not None:
            new = list(m)
            new[6] = None
            yield dict(plan, messages=plan["messages"][:i] + [new] + plan["messages"][i + 1:])
        if m[1] > 0 and m[6] is None:
            new = list(m)
            new[1] = m[1] // 2
            yield dict(plan, messages=plan["messages"][:i] + [new] + plan["messages"][i + 1:])


def run(sim, plan):
    from secsgem.secsi.header import SecsIHeader
    from secsgem.secsi.message import SecsIMessage

    from scenarios.c16 import make_chunker

    k = sim.k
    line = sim.make_line(a="SIMA", b="SIMB")
    line.chunker = make_chunker(plan, random.Random(plan["seed"] ^ 0xC17))
    mon = secsienv.E4Monitor(sim, line)
    a_host = plan["a_is_host"]
    device = plan["device"]
    mode = plan["mode"]
    ends = {}
    recs = {}
    ends["SIMA"] = secsienv.make_endpoint(sim, "SIMA", host=a_host, device_id=device, t3=5)
    recs["SIMA"] = secsienv.Recorder(sim, ends["SIMA"], "A")
    peer = None
    if mode == "two_real":
        ends["SIMB"] = secsienv.make_endpoint(sim, "SIMB", host=not a_host, device_id=device, t3=5)
        recs["SIMB"] = secsienv.Recorder(sim, ends["SIMB"], "B")
    else:
        peer = secsienv.SecsIPeer(sim, line, "SIMB")
    # corruption hook: flips one byte of the k-th block written by a given side
    target = {"src": None, "block": None, "pos": None, "mask": None, "count": {}, "hit": False}

    def corrupt_write(src, data):
        if len(data) >= 13 and data[0] + 3 == len(data):
            n = target["count"].get(src, 0)
            target["count"][src] = n + 1
            if target["src"] == src and target["block"] == n and not target["hit"]:
                target["hit"] = True
                sim.fault("byte_corrupted")
                out = bytearray(data)
                out[target["pos"]] ^= target["mask"]
                return bytes(out)
        return data

    line.corrupt_write = corrupt_write
    done = {"n": 0}

    def enable(p):
        p.enable()
        done["n"] += 1

    for name, p in ends.items():
        sim.spawn(lambda p=p: enable(p), f"app_enable_{name}", role="app")
    if not sim.wait_until(lambda: done["n"] == len(ends), 5):
        sim.inconclusive("enable() did not return")
    sim.advance(0.1)
    slow = plan["chunk_gap"] * 1.3 if plan["chunk"] != "whole" else 0.0
    if plan["chunk"] != "whole":
        sim.probe("chunked")
    system = 0x4000
    dirs = set()
    abstract = []
    after_nak = False
    nontrivial = plan["chunk"] != "whole"
    for direction, n, s, f, w, seed, corrupt in plan["messages"]:
        system += 1
        src = "SIMA" if direction == 0 else "SIMB"
        dst = "SIMB" if direction == 0 else "SIMA"
        dirs.add(direction)
        body = random.Random(seed).randbytes(n)
        nblocks = max(1, (n + 243) // 244)
        if nblocks > 1:
            sim.probe("multi_block")
        src_is_host = a_host if src == "SIMA" else not a_host
        cclass = None
        if corrupt is not None:
            b, pos, mask = corrupt
            blen = min(244, n - 244 * b) if n else 0
            pos = min(pos, 12 + blen)
            target.update(src=src, block=target["count"].get(src, 0) + b, pos=pos, mask=mask, hit=False)
            cclass = "first" if b == 0 else "last" if b == nblocks - 1 else "middle"
            if nblocks == 1:
                cclass = "first"
            sim.probe("corrupt_" + cclass)
            nontrivial = True
        else:
            target.update(src=None)
        abstract.append((direction, min(nblocks, 4), cclass))
        n_blocks_before = len(mon.blocks)
        dst_rec_before = len(recs[dst].received) if dst in recs else len(peer.messages)
        result = {"ok": None, "done": False}
        budget = 20 + nblocks * 0.8 + (n + 20 * nblocks) * slow
        if src in ends:
            proto = ends[src]

            def send(proto=proto, system=system, s=s, f=f, w=w, body=body, src_is_host=src_is_host, result=result):
                hdr = SecsIHeader(system, device, s, f, require_response=w, from_equipment=not src_is_host)
                result["ok"] = proto.send_message(SecsIMessage(hdr, body))
                result["done"] = True

            sim.spawn(send, f"app_send_{system:x}", role="app")
            if not sim.wait_until(lambda: result["done"], budget):
                sim.violation("C17.R4", f"send of message #{system:#x} ({n} bytes, {nblocks} blocks, corrupt={corrupt}) did "
                              "not return", sig="C17.R4|send-stuck|" + ("after-nak" if after_nak else "clean"))
        else:
            blocks = rc.split_message(device, not src_is_host, w, s, f, system, body)
            r0 = len(peer.tx_results)
            peer.send_blocks([b.encode() for b in blocks])
            sim.wait_until(lambda: len(peer.tx_results) - r0 >= len(blocks) or
                           any(r != "ack" for _b, r in peer.tx_results[r0:]), budget)
            res = [r for _b, r in peer.tx_results[r0:]]
            result["ok"] = len(res) == len(blocks) and all(r == "ack" for r in res)
            if any(r != "ack" for r in res):
                # a NAKed transfer is abandoned (no RTY in the property): drop the rest
                peer.tx_queue.clear()
        sim.advance(0.3 + 20 * slow)
        delivered = (recs[dst].received[dst_rec_before:] if dst in recs else peer.messages[dst_rec_before:])
        mine = [m for m in delivered if m["system"] == system]
        desc = f"message #{system:#x} {src}->{dst} S{s}F{f} {n} bytes/{nblocks} blocks"
        new_blocks = mon.blocks[n_blocks_before:]
        if corrupt is None or not target["hit"]:
            if after_nak:
                sim.probe("message_after_nak")
            if result["ok"] is not True:
                sim.violation("C17.R2", f"{desc}: send reported {result['ok']} on a fault-free line" +
                              (" (first message after a NAKed one)" if after_nak else ""),
                              sig="C17.R2|send-failed|" + ("after-nak" if after_nak else "clean"))
            if len(mine) != 1:
                sim.violation("C17.R2", f"{desc}: send reported success, delivered {len(mine)} times" +
                              (" (first message after a NAKed one)" if after_nak else ""),
                              sig=f"C17.R2|delivered-{min(len(mine), 2)}|" + ("after-nak" if after_nak else "clean"))
            g = mine[0]
            if (g["stream"], g["function"], g["w"], g["device"], g["r"], g["body"]) != (s, f, w, device, not src_is_host, body):
                sim.violation("C17.R2", f"{desc}: delivered with different header/body ({len(g['body'])} bytes)",
                              sig="C17.R2|content")
            if any(b["result"] != "ack" for b in new_blocks) or len(new_blocks) != nblocks:
                sim.violation("C17.R1", f"{desc}: {len(new_blocks)} blocks on the line with results "
                              f"{[b['result'] for b in new_blocks]}", sig="C17.R1|block-results")
            after_nak = False
        else:
            b = corrupt[0]
            naks = [x for x in new_blocks if x["result"] == "nak"]
            if naks:
                sim.probe("nak_seen")
            if len(new_blocks) <= b or new_blocks[b]["result"] != "nak":
                sim.violation("C17.R3", f"{desc}: block {b + 1} was corrupted at byte {corrupt[1]} (^{corrupt[2]:#x}) but "
                              f"the line shows {[x['result'] for x in new_blocks]}", sig="C17.R3|corrupted-block-not-naked")
            if mine:
                sim.violation("C17.R3", f"{desc}: block {b + 1} was corrupted, yet a message with these system bytes was "
                              f"delivered ({len(mine[0]['body'])} of {n} bytes)", sig="C17.R3|delivered-despite-nak")
            if result["ok"] is not False:
                sim.violation("C17.R3", f"{desc}: block {b + 1} was NAKed but the send call reported {result['ok']}",
                              sig="C17.R3|sender-not-told")
            if len(new_blocks) > b + 1:
                sim.violation("C17.R3", f"{desc}: {len(new_blocks) - b - 1} further blocks were transmitted after the NAK "
                              "of block " + str(b + 1), sig="C17.R3|blocks-after-nak")
            after_nak = True
        if delivered and len(delivered) != len(mine):
            sim.violation("C17.R2", f"{desc}: unrelated deliveries {[(m['system'], len(m['body'])) for m in delivered]}",
                          sig="C17.R2|unrelated-delivery")
    pair = plan.get("pair")
    if pair is not None and not after_nak:
        direction, n1, n2, seed = pair
        src = "SIMA" if direction == 0 else "SIMB"
        dst = "SIMB" if direction == 0 else "SIMA"
        src_is_host = a_host if src == "SIMA" else not a_host
        target.update(src=None)
        rnd = random.Random(seed)
        specs = []
        for n in (n1, n2):
            system += 1
            specs.append((system, n, rnd.randbytes(n), {"ok": None, "done": False}))
        dst_rec_before = len(recs[dst].received) if dst in recs else len(peer.messages)
        n_blocks_before = len(mon.blocks)
        total_blocks = sum(max(1, (n + 243) // 244) for _s, n, _b, _r in specs)
        budget = 20 + total_blocks * 0.8 + (n1 + n2 + 20 * total_blocks) * slow
        sim.probe("concurrent_senders")
        if src in ends:
            proto = ends[src]
            sim.focus(2)
            for sysb, n, body, result in specs:
                def send(proto=proto, sysb=sysb, body=body, result=result):
                    hdr = SecsIHeader(sysb, device, 7, 3, require_response=False, from_equipment=not src_is_host)
                    result["ok"] = proto.send_message(SecsIMessage(hdr, body))
                    result["done"] = True

                sim.spawn(send, f"app_send_{sysb:x}", role="app")
            if not sim.wait_until(lambda: all(r["done"] for _s, _n, _b, r in specs), budget):
                sim.violation("C17.R4", "two concurrent sends of one endpoint did not both return",
                              sig="C17.R4|send-stuck|concurrent")
        else:
            # the reference peer interleaves the blocks of its two messages
            per = [[b.encode() for b in rc.split_message(device, not src_is_host, False, 7, 3, sysb, body)]
                   for sysb, _n, body, _r in specs]
            inter = []
            for i in range(max(len(x) for x in per)):
                inter += [x[i] for x in per if i < len(x)]
            r0 = len(peer.tx_results)
            peer.send_blocks(inter)
            sim.wait_until(lambda: len(peer.tx_results) - r0 >= len(inter), budget)
            ok = [r for _b, r in peer.tx_results[r0:]] == ["ack"] * len(inter)
            for _s, _n, _b, result in specs:
                result["ok"] = ok
        sim.advance(0.3 + 20 * slow)
        delivered = (recs[dst].received[dst_rec_before:] if dst in recs else peer.messages[dst_rec_before:])
        for sysb, n, body, result in specs:
            mine = [m for m in delivered if m["system"] == sysb]
            desc = f"message #{sysb:#x} {src}->{dst} ({n} bytes) sent concurrently with another message of the same side"
            if result["ok"] is not True:
                sim.violation("C17.R2", f"{desc}: send reported {result['ok']} on a fault-free line",
                              sig="C17.R2|send-failed|concurrent")
            if len(mine) != 1:
                sim.violation("C17.R2", f"{desc}: send reported success, delivered {len(mine)} times",
                              sig=f"C17.R2|delivered-{min(len(mine), 2)}|concurrent")
            if (mine[0]["stream"], mine[0]["function"], mine[0]["body"]) != (7, 3, body):
                sim.violation("C17.R2", f"{desc}: delivered with different header/body ({len(mine[0]['body'])} bytes)",
                              sig="C17.R2|content|concurrent")
        if len(delivered) != 2:
            sim.violation("C17.R2", f"concurrent sends: deliveries {[(m['system'], len(m['body'])) for m in delivered]}",
                          sig="C17.R2|unrelated-delivery|concurrent")
        new_blocks = mon.blocks[n_blocks_before:]
        if any(b["result"] != "ack" for b in new_blocks) or len(new_blocks) != total_blocks:
            sim.violation("C17.R1", f"concurrent sends: {len(new_blocks)} blocks on the line (expected {total_blocks}) with "
                          f"results {[b['result'] for b in new_blocks]}", sig="C17.R1|block-results|concurrent")
    if len(dirs) == 2:
        sim.probe("both_directions")
    # R1: the ENQ/EOT/block/ACK-NAK discipline over the whole run
    if mon.errors:
        sim.violation("C17.R1", f"handshake violations on the line: {mon.errors[:4]}", sig="C17.R1|handshake")
    if peer is not None and peer.errors:
        sim.violation("C17.R1", f"reference peer saw protocol errors: {peer.errors[:3]}", sig="C17.R1|peer-errors")
    if mon.state != "idle":
        sim.violation("C17.R1", f"line left in state {mon.state}", sig="C17.R1|line-not-idle")
    sim.nontrivial = nontrivial
    sim.abstract = (mode, plan["chunk"], abstract[:8])

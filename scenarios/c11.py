"""C11 - GEM control state follows the E30 control model for every operator/host history.

Real: ControlStateMachine, StateModelsCapability, GemEquipmentHandler, collection-event sender threads, the
are_you_there probe, the whole HSMS stack.  Stub: SimSocket, scripted host (reference codecs).
Oracle: E30 control model (DESIGN.md B.3).
"""

from __future__ import annotations

from simkit import gemenv, refcodec as rc

PROP = "C11"
SHRINK = ("ops",)
LIMITS = {"max_steps": 800_000, "max_vtime": 2000.0}
BUDGET = {
    "quick": {"runs": 3500, "wall": 150, "chunk": 40, "minimise": 120},
    "thorough": {"runs": 150_000, "wall": 1500, "chunk": 100, "minimise": 250},
}
REQUIRED_PROBES = {"quick": ("op_online_ok", "op_online_refused", "op_online_silent", "op_offline", "s1f15", "s1f17",
                             "op_local", "op_remote", "illegal_switch", "ce_checked", "offline_from_host_offline",
                             "race", "op_online_without_communication", "transport_secsi"),
                   "thorough": ("op_online_ok", "op_online_refused", "op_online_silent", "op_offline", "s1f15", "s1f17",
                                "op_local", "op_remote", "illegal_switch", "ce_checked", "offline_from_host_offline",
                                "s1f17_during_probe", "race", "op_online_without_communication", "transport_secsi")}
EVIDENCE = {
    "level": "exploration",
    "rule": ("all initial configurations (EQUIPMENT_OFFLINE / ATTEMPT_ONLINE / HOST_OFFLINE / ONLINE x "
             "LOCAL/REMOTE) x control-state events linked+enabled or not x seeded sequences of operator switches "
             "(from an operator thread) and host S1F15/S1F17/S1F3, with the attempt-online probe answered S1F2 / "
             "S1F0 / not at all, operator switch and host request issued at the same instant (outcome must equal "
             "one of the two orders), phases without established communication (host leaves S1F13 unanswered after "
             "a link loss); non-trivial = at least one transition was taken; distinct = distinct (initial config, "
             "op sequence)"),
    "real": ["secsgem.gem.ControlStateMachine", "secsgem.gem.StateModelsCapability", "secsgem.gem.GemEquipmentHandler",
             "secsgem.gem.CollectionEventCapability (sender threads)", "secsgem.hsms.HsmsProtocol", "secsgem.secsi.SecsIProtocol + SerialConnection (a fifth of the runs)",
             "secsgem.common.Tcp*Connection"],
    "stub": ["socket/select (SimSocket)", "serial.Serial (SimLine) with the reference E4 peer", "scripted host (reference codecs)"],
    "assumptions": ["E30 reading in DESIGN.md B.3; a failed attempt-online may end in HOST_OFFLINE or EQUIPMENT_OFFLINE; "
                    "for the operator's OFF-LINE from HOST_OFFLINE the 'equipment off-line' event is accepted either way",
                    "operator switches that E30 gives no transition for must raise and change nothing"],
}

SCHEDS = [
    {"policy": "sticky", "preempt": "line"},
    {"policy": "random", "p": 0.05, "preempt": "line"},
    {"policy": "random", "p": 0.3, "preempt": "line"},
    {"policy": "pct", "d": 2, "horizon": 3000, "preempt": "line"},
    {"policy": "rr", "q": 3, "preempt": "line"},
    {"policy": "random", "p": 0.2, "preempt": "sync"},
    {"policy": "random", "p": 0.5, "preempt": "sync"},
    {"policy": "pct", "d": 2, "horizon": 150, "preempt": "sync"},
]
OPS = ["op_online", "op_online", "op_offline", "op_offline", "op_local", "op_remote", "s1f15", "s1f17", "s1f17",
       "s1f3", "op_online_s1f17", "comm_down", "comm_up", "comm_up",
       "race:op_offline:s1f17", "race:op_offline:s1f15", "race:op_local:s1f15", "race:op_remote:s1f15",
       "race:op_offline:s1f17", "race:op_remote:s1f17"]
CODE = {"EO": 1, "AO": 2, "HO": 3, "OL": 4, "OR": 5}
NAME = {"EQUIPMENT_OFFLINE": "EO", "ATTEMPT_ONLINE": "AO", "HOST_OFFLINE": "HO", "ONLINE_LOCAL": "OL",
        "ONLINE_REMOTE": "OR", "ONLINE": "ON?", "OFFLINE": "OFF?", "CONTROL": "CTL?", "INIT": "INIT?"}
T3 = 2.0


def model_apply(st, sub, act):
    """E30 control model, one action: returns (state, sub-state setting, result, collection events).  result is "ok" /
    "raise" for operator switches and the acknowledge code for host requests."""
    online = ("OL", "OR")
    if act == "op_offline":
        if st in online:
            return "EO", sub, "ok", [1]
        if st == "HO":
            return "EO", sub, "ok", []
        return st, sub, "raise", []
    if act == "op_local":
        return ("OL", "LOCAL", "ok", [2]) if st == "OR" else (st, sub, "raise", [])
    if act == "op_remote":
        return ("OR", "REMOTE", "ok", [3]) if st == "OL" else (st, sub, "raise", [])
    if act == "s1f15":
        return ("HO", sub, 0, [1]) if st in online else (st, sub, 0, [])
    if act == "s1f17":
        if st == "HO":
            return ("OL" if sub == "LOCAL" else "OR"), sub, 0, [2 if sub == "LOCAL" else 3]
        return st, sub, (2 if st in online else 1), []
    raise AssertionError(act)


def gen_plan(rng, tier, index):
    ops = [[rng.choice(OPS), rng.choice(["s1f2", "s1f2", "s1f0", "none"])] for _ in range(rng.choice([2, 4, 8, 14, 25, 40]))]
    plan = {"initial": rng.choice(["EQUIPMENT_OFFLINE", "ATTEMPT_ONLINE", "HOST_OFFLINE", "ONLINE"]),
            "sub": rng.choice(["LOCAL", "REMOTE"]), "events": rng.random() < 0.7, "ops": ops,
            "active": rng.random() < 0.3, "latency": rng.choice([0.0, 0.0005, 0.01])}
    plan["transport"] = rng.choice(["hsms", "hsms", "hsms", "hsms", "secsi"])
    sched = dict(rng.choice(SCHEDS))
    sched["seed"] = rng.getrandbits(48)
    plan["sched"] = sched
    return plan


def sample_view(plan):
    return plan


def shrink_candidates(plan):
    if plan["latency"]:
        yield dict(plan, latency=0.0)
    if plan["events"]:
        yield dict(plan, events=False)


def run(sim, plan):
    k = sim.k
    sim.make_net(latency=plan["latency"])
    transport = plan.get("transport", "hsms")
    line = sim.make_line(a="SIMA", b="SIMB") if transport == "secsi" else None
    if transport == "secsi":
        sim.probe("transport_secsi")
    env = gemenv.GemEnv(sim, role="equipment", active=plan["active"], t3=T3, delay=1, transport=transport, line=line,
                        initial_control_state=plan["initial"], initial_online_control_state=plan["sub"])
    eq = env.handler
    if transport == "secsi":
        # E4 contention (both sides ENQ) is outside the statement and not resolved by secsgem's equipment role
        # (observation in DESIGN.md): stimuli at the same instant are not generated on this transport, and a run in
        # which the line saw a contention nevertheless decides nothing
        _violation = sim.violation

        def violation(*a, **kw):
            if env.hp is not None and env.hp.peer.contentions:
                sim.probe("secsi_contention")
                sim.inconclusive("SECS-I ENQ contention (outside the statement)")
            return _violation(*a, **kw)

        sim.violation = violation
    probe_mode = {"mode": "s1f2", "inject_s1f17": False, "s1f17_system": None}

    comm = {"down": False}

    def peer_setup(peer):
        peer.answer_s1f13 = not comm["down"]

        def s1f1(fr):
            mode = probe_mode["mode"]
            if probe_mode["inject_s1f17"]:
                probe_mode["inject_s1f17"] = False
                probe_mode["s1f17_system"] = peer.send_primary(1, 17, None, True)
                # the probe answer follows the S1F17 on the wire
            if mode == "s1f2":
                return rc.data(1, 2, False, fr.system, rc.enc(rc.ls()))
            if mode == "s1f0":
                return rc.data(1, 0, False, fr.system, b"")
            return None

        peer.auto[(1, 1)] = s1f1

    env.configure_peer = peer_setup
    # model state at construction
    sub = plan["sub"]
    if plan["initial"] == "EQUIPMENT_OFFLINE":
        states = {"EO"}
    elif plan["initial"] == "HOST_OFFLINE":
        states = {"HO"}
    elif plan["initial"] == "ONLINE":
        states = {"OL" if sub == "LOCAL" else "OR"}
    else:
        states = {"HO", "EO"}     # attempt on-line at start-up fails: no communication yet
    model = {"states": states, "sub": sub}

    def observed():
        return NAME.get(eq.control_state.current.name, eq.control_state.current.name)

    def check_state(where):
        got = observed()
        if got not in model["states"]:
            sim.violation("C11.R1", f"after {where}: control state {eq.control_state.current.name}, E30 model allows "
                          f"{sorted(model['states'])}; history {hist[-8:]}",
                          sig=f"C11.R1|{where}|got-{got}-want-{'/'.join(sorted(model['states']))}")
        model["states"] = {got}   # continue from the observed member of the allowed set

    hist = []
    check_state("construction")
    env.start()
    peer = env.establish()
    if peer is None:
        sim.inconclusive("communication not established")
    check_state("establish")
    events = plan["events"]
    if events:
        r1 = peer.request(2, 33, rc.ls(rc.u4(0), rc.ls(rc.ls(rc.u4(1), rc.ls(rc.u4(1002))))))
        r2 = peer.request(2, 35, rc.ls(rc.u4(0), rc.ls(rc.ls(rc.u4(1), rc.ls(rc.u4(1))), rc.ls(rc.u4(2), rc.ls(rc.u4(1))),
                                                     rc.ls(rc.u4(3), rc.ls(rc.u4(1))))))
        r3 = peer.request(2, 37, rc.ls(rc.boolean(True), rc.ls(rc.u4(1), rc.u4(2), rc.u4(3))))
        for r in (r1, r2, r3):
            if r is None or rc.decode_body(r.body).value != b"\x00":
                sim.inconclusive("event report set-up refused")
    seen_s6f11 = {"n": len(peer.of(6, 11))}

    def new_events():
        frames = peer.of(6, 11)[seen_s6f11["n"]:]
        seen_s6f11["n"] += len(frames)
        out = []
        for fr in frames:
            item = rc.decode_body(fr.body)
            ceid = item.value[1].plain()
            out.append(ceid)
            # the linked report carries SVID 1002 = the control state at the time the report was built
        return out

    def expect_events(where, must, may=()):
        sim.probe("ce_checked")
        got = new_events()
        if not events:
            if got:
                sim.violation("C11.R3", f"{where}: S6F11 {got} although no event is enabled", sig="C11.R3|event-not-enabled")
            return
        rest = list(got)
        for c in must:
            if c in rest:
                rest.remove(c)
            else:
                sim.violation("C11.R3", f"{where}: collection event {c} was not reported (got {got}); history {hist[-6:]}",
                              sig=f"C11.R3|missing-ce{c}|{where}")
        for c in may:
            if c in rest:
                rest.remove(c)
        if rest:
            sim.violation("C11.R3", f"{where}: unexpected collection events {rest} (all: {got}); history {hist[-6:]}",
                          sig=f"C11.R3|unexpected-ce{rest[0]}|{where}")

    def operator(name, fn):
        """Run an operator switch on an operator thread; returns (raised, done)."""
        rec = {"done": False, "exc": None}

        def body():
            try:
                fn()
            except Exception as exc:  # noqa: BLE001
                rec["exc"] = exc
            rec["done"] = True

        sim.spawn(body, f"operator_{name}", role="app")
        if not sim.wait_until(lambda: rec["done"], T3 + 3):
            sim.violation("C11.R1", f"operator switch {name} did not return", sig=f"C11.R1|{name}-stuck")
        sim.advance(0.3)
        return rec

    def sub_state():
        return "OL" if model["sub"] == "LOCAL" else "OR"

    def sub_ce():
        return 2 if model["sub"] == "LOCAL" else 3

    nontrivial = False
    for op, probe in plan["ops"]:
        cur = next(iter(model["states"]))
        hist.append(f"{op}@{cur}")
        peer = env.peer
        if op == "comm_down":
            # the link is lost and comes back, but the host leaves S1F13 unanswered: communication is not established
            if comm["down"] or env.transport != "hsms":
                continue
            sim.probe("comm_down")
            comm["down"] = True
            peer.hp.close()
            sim.wait_until(lambda: env.conn_state == "NOT_CONNECTED", 10)
            if env.connect(timeout=10) is None:
                sim.inconclusive("link could not be re-established")
            sim.advance(0.3)
            if env.comm_state == "COMMUNICATING":
                sim.inconclusive("communicating although S1F13 was not answered (C07's subject)")
            peer = env.peer
            seen_s6f11["n"] = 0      # a new scripted peer with an empty inbox
            # E30 has no control-state transition for a loss of communication; secsgem's equipment handler deliberately
            # goes off-line and attempts on-line again (which fails without communication).  Link loss is not among the
            # histories of the property: either behaviour is taken as the starting point of what follows
            model["states"] = {cur, "HO", "EO"}
            check_state("comm_down")
            continue
        if op == "comm_up":
            if not comm["down"]:
                continue
            comm["down"] = False
            env.peer.answer_s1f13 = True
            if not sim.wait_until(lambda: env.comm_state == "COMMUNICATING", T3 + 1 + 4):
                sim.inconclusive("communication was not re-established (C07's subject)")
            sim.advance(0.3)
            new_events()
            check_state("comm_up")
            continue
        if comm["down"]:
            # no communication: only the operator acts; nothing can be reported to the host
            if op == "op_online":
                probe_mode["mode"] = probe      # a permissive host would even answer an S1F1 that must not be sent
                rec = operator("online", eq.control_switch_online)
                if cur == "EO":
                    sim.probe("op_online_without_communication")
                    nontrivial = True
                    model["states"] = {"HO", "EO"}      # the attempt fails: no S1F1/S1F2 exchange is possible
                    check_state("op_online:not-communicating")
                else:
                    if rec["exc"] is None:
                        sim.violation("C11.R1", f"operator ON-LINE in {cur} did not raise",
                                      sig=f"C11.R1|online-in-{cur}-no-raise")
                    check_state("op_online:illegal")
            elif op in ("op_offline", "op_local", "op_remote"):
                st2, sub2, res, _ev = model_apply(cur, model["sub"], op)
                rec = operator(op, {"op_offline": eq.control_switch_offline, "op_local": eq.control_switch_online_local,
                                    "op_remote": eq.control_switch_online_remote}[op])
                if (rec["exc"] is None) != (res == "ok"):
                    sim.violation("C11.R1", f"{op} in {cur} without communication: " +
                                  ("raised " + repr(rec["exc"]) if rec["exc"] is not None else "did not raise"),
                                  sig=f"C11.R1|{op}-in-{cur}-" + ("raised" if rec["exc"] is not None else "no-raise"))
                model["states"], model["sub"] = {st2}, sub2
                check_state(op + ":not-communicating")
            new_events()
            continue
        if transport == "secsi" and (op.startswith("race:") or op == "op_online_s1f17"):
            continue     # two stimuli at the same instant: ENQ contention on a half-duplex line
        if op.startswith("race:"):
            # an operator switch and a host request at the same time: the outcome must be that of one of the two orders
            _r, oa, ha = op.split(":")
            outcomes = []
            for order in ((oa, ha), (ha, oa)):
                st, sb, res = cur, model["sub"], {}
                for a in order:
                    st, sb, r, _e = model_apply(st, sb, a)
                    res[a] = r
                outcomes.append((st, sb, res[oa], res[ha]))
            sim.probe("race")
            nontrivial = True
            rec = {"done": False, "exc": None}
            fn = {"op_offline": eq.control_switch_offline, "op_local": eq.control_switch_online_local,
                  "op_remote": eq.control_switch_online_remote}[oa]

            def body(fn=fn, rec=rec):
                try:
                    fn()
                except Exception as exc:  # noqa: BLE001
                    rec["exc"] = exc
                rec["done"] = True

            if probe in ("s1f2", "none"):
                sim.spawn(body, f"operator_{oa}", role="app")
                system = peer.send_primary(1, 15 if ha == "s1f15" else 17, None, True)
            else:
                system = peer.send_primary(1, 15 if ha == "s1f15" else 17, None, True)
                sim.spawn(body, f"operator_{oa}", role="app")
            sim.focus(2)
            if not sim.wait_until(lambda: rec["done"] and peer.replies(system), T3 + 3):
                sim.violation("C11.R1", f"race {oa} / {ha} in {cur}: operator done={rec['done']}, replies "
                              f"{peer.replies(system)}", sig="C11.R1|race-stuck")
            sim.advance(0.3)
            rep = peer.replies(system)
            got_op = "ok" if rec["exc"] is None else "raise"
            got_ack = None
            if len(rep) == 1 and (rep[0].stream, rep[0].function) == (1, 16 if ha == "s1f15" else 18):
                got_ack = rc.decode_body(rep[0].body).value[0]
            elif len(rep) == 1 and (rep[0].stream, rep[0].function) == (1, 0):
                got_ack = "abort"      # the handler lost the race inside its transition and aborted the transaction
                sim.probe("race_request_aborted")
            got_state = observed()
            ok = any(o[0] == got_state and o[2] == got_op and o[3] == got_ack for o in outcomes)
            if not ok:
                sim.violation("C11.R1", f"operator {oa} and host {ha} at the same time in {cur}: ended in "
                              f"{eq.control_state.current.name} with operator result {got_op} and acknowledge {got_ack}; "
                              f"the two possible orders give {outcomes}; history {hist[-6:]}",
                              sig=f"C11.R1|race|{oa}|{ha}|{cur}")
            match = [o for o in outcomes if o[0] == got_state and o[2] == got_op]
            model["states"] = {got_state}
            model["sub"] = "LOCAL" if got_state == "OL" else "REMOTE" if got_state == "OR" else match[0][1]
            new_events()
            continue
        if op in ("op_online", "op_online_s1f17"):
            probe_mode["mode"] = probe
            inject = op == "op_online_s1f17" and cur == "EO"
            probe_mode["inject_s1f17"] = inject
            probe_mode["s1f17_system"] = None
            rec = operator("online", eq.control_switch_online)
            if cur == "EO":
                nontrivial = True
                if probe == "s1f2":
                    sim.probe("op_online_ok")
                    model["states"] = {sub_state()}
                    if rec["exc"] is not None:
                        sim.violation("C11.R1", f"operator ON-LINE in EQUIPMENT_OFFLINE raised {rec['exc']!r}",
                                      sig="C11.R1|online-raised")
                    check_state("op_online:ok")
                    expect_events("op_online", [sub_ce()])
                else:
                    sim.probe("op_online_refused" if probe == "s1f0" else "op_online_silent")
                    model["states"] = {"HO", "EO"}
                    check_state("op_online:fail")
                    expect_events("op_online_failed", [])
                if inject and probe_mode["s1f17_system"] is not None:
                    sim.probe("s1f17_during_probe")
                    rep = peer.replies(probe_mode["s1f17_system"])
                    if len(rep) != 1 or (rep[0].stream, rep[0].function) != (1, 18) or \
                            rc.decode_body(rep[0].body).value != b"\x01":
                        sim.violation("C11.R2", f"S1F17 received during ATTEMPT_ONLINE must be refused with ONLACK 1, "
                                      f"got {rep}", sig="C11.R2|s1f17-during-attempt")
            else:
                sim.probe("illegal_switch")
                if rec["exc"] is None:
                    sim.violation("C11.R1", f"operator ON-LINE in {cur} did not raise", sig=f"C11.R1|online-in-{cur}-no-raise")
                check_state("op_online:illegal")
                expect_events("op_online_illegal", [])
        elif op == "op_offline":
            rec = operator("offline", eq.control_switch_offline)
            if cur in ("OL", "OR"):
                sim.probe("op_offline")
                nontrivial = True
                model["states"] = {"EO"}
                if rec["exc"] is not None:
                    sim.violation("C11.R1", f"operator OFF-LINE in {cur} raised {rec['exc']!r}", sig="C11.R1|offline-raised")
                check_state("op_offline")
                expect_events("op_offline", [1])
            elif cur == "HO":
                sim.probe("offline_from_host_offline")
                nontrivial = True
                model["states"] = {"EO"}
                if rec["exc"] is not None:
                    sim.violation("C11.R1", "operator OFF-LINE in HOST_OFFLINE (E30 transition 12) raised "
                                  f"{type(rec['exc']).__name__}: {rec['exc']}", sig="C11.R1|offline-from-host-offline-raised")
                check_state("op_offline:from-HO")
                expect_events("op_offline_from_ho", [], may=[1])
            else:
                sim.probe("illegal_switch")
                if rec["exc"] is None:
                    sim.violation("C11.R1", f"operator OFF-LINE in {cur} did not raise", sig=f"C11.R1|offline-in-{cur}-no-raise")
                check_state("op_offline:illegal")
                expect_events("op_offline_illegal", [])
        elif op in ("op_local", "op_remote"):
            want_from, to, ce, subname = ("OR", "OL", 2, "LOCAL") if op == "op_local" else ("OL", "OR", 3, "REMOTE")
            rec = operator(op, eq.control_switch_online_local if op == "op_local" else eq.control_switch_online_remote)
            if cur == want_from:
                sim.probe(op)
                nontrivial = True
                model["states"] = {to}
                model["sub"] = subname
                if rec["exc"] is not None:
                    sim.violation("C11.R1", f"{op} in {cur} raised {rec['exc']!r}", sig=f"C11.R1|{op}-raised")
                check_state(op)
                expect_events(op, [ce])
            else:
                sim.probe("illegal_switch")
                if rec["exc"] is None:
                    sim.violation("C11.R1", f"{op} in {cur} did not raise", sig=f"C11.R1|{op}-in-{cur}-no-raise")
                check_state(op + ":illegal")
                expect_events(op + "_illegal", [])
        elif op == "s1f15":
            sim.probe("s1f15")
            rep = peer.request(1, 15, None, timeout=T3 + 1)
            sim.advance(0.3)
            if rep is None or (rep.stream, rep.function) != (1, 16) or rc.decode_body(rep.body).value != b"\x00":
                sim.violation("C11.R2", f"S1F15 in {cur}: expected S1F16 OFLACK 0, got {rep} "
                              f"{rep.body.hex() if rep else ''}", sig="C11.R2|oflack")
            if cur in ("OL", "OR"):
                nontrivial = True
                model["states"] = {"HO"}
                check_state("s1f15")
                expect_events("s1f15", [1])
            else:
                check_state("s1f15:noop")
                expect_events("s1f15_noop", [])
        elif op == "s1f17":
            sim.probe("s1f17")
            rep = peer.request(1, 17, None, timeout=T3 + 1)
            sim.advance(0.3)
            want = 0 if cur == "HO" else 2 if cur in ("OL", "OR") else 1
            got = None
            if rep is not None and (rep.stream, rep.function) == (1, 18):
                got = rc.decode_body(rep.body).value
            if got != bytes([want]):
                sim.violation("C11.R2", f"S1F17 in {cur}: expected S1F18 ONLACK {want}, got "
                              f"{rep} {got.hex() if got else None}", sig=f"C11.R2|onlack-in-{cur}")
            if cur == "HO":
                nontrivial = True
                model["states"] = {sub_state()}
                check_state("s1f17")
                expect_events("s1f17", [sub_ce()])
            else:
                check_state("s1f17:noop")
                expect_events("s1f17_noop", [])
        elif op == "s1f3":
            rep = peer.request(1, 3, rc.ls(rc.u4(1002)), timeout=T3 + 1)
            ok = False
            val = None
            if rep is not None and (rep.stream, rep.function) == (1, 4):
                item = rc.decode_body(rep.body)
                if item.fmt == rc.L and len(item.value) == 1:
                    val = item.value[0].plain()
                    val = val[0] if isinstance(val, (bytes, list)) and len(val) == 1 else val
                    ok = val == CODE[cur]
            if not ok:
                sim.violation("C11.R4", f"S1F4 for SVID 1002 in {cur}: expected {CODE[cur]}, got {val} ({rep})",
                              sig=f"C11.R4|svid1002-in-{cur}")
            expect_events("s1f3", [])
    sim.advance(0.5)
    expect_events("end", [])
    sim.nontrivial = nontrivial
    sim.abstract = (plan["initial"], plan["sub"], plan["events"], [o for o, _ in plan["ops"]][:16])

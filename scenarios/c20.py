"""C20 - a secsgem host and a secsgem equipment always reach communication and agree on data.

Real: GemHostHandler and GemEquipmentHandler with everything below them (SECS handler, HSMS protocol, dispatcher,
state machines, timers, real TcpClientConnection/TcpServerConnection).  Stub: only the network (SimNet with latency,
jitter and segmentation) and the primitives.
"""

from __future__ import annotations

from simkit import facades, hsmsenv, refcodec as rc

PROP = "C20"
SHRINK = ("ops",)
LIMITS = {"max_steps": 1_500_000, "max_vtime": 3000.0}
BUDGET = {
    "quick": {"runs": 2000, "wall": 160, "chunk": 25, "minimise": 100},
    "thorough": {"runs": 100_000, "wall": 1700, "chunk": 60, "minimise": 250},
}
REQUIRED_PROBES = {"quick": ("host_active", "host_passive", "late_listener", "cycle_host", "cycle_equipment",
                             "event_delivered", "segmented_delivery", "api_checked", "thread_stalled"),
                   "thorough": ("host_active", "host_passive", "late_listener", "cycle_host", "cycle_equipment",
                                "event_delivered", "segmented_delivery", "api_checked", "cycle_mid_call")}
EVIDENCE = {
    "level": "exploration",
    "rule": ("both connect-role assignments, any enable order and gap (incl. the passive side late -> ECONNREFUSED + T5 "
             "retry), seeded latency/jitter/segmentation per run, T3/T5/T6/delay knobs, seeded sequences of host API "
             "calls, equipment-side triggers (unique token each), alarms, operator switches and disable/enable cycles of "
             "either side (also in the middle of a call); non-trivial = at least one disable/enable cycle or a late "
             "listener; distinct = distinct (roles, enable order, op sequence)"),
    "real": ["secsgem.gem.GemHostHandler", "secsgem.gem.GemEquipmentHandler", "secsgem.secs.SecsHandler",
             "secsgem.hsms.HsmsProtocol", "secsgem.common.ProtocolDispatcher", "secsgem.common.TcpClientConnection",
             "secsgem.common.TcpServerConnection", "all GEM capabilities and state machines"],
    "stub": ["network only: simkit.sockets.SimNet/SimSocket (latency, jitter, segmentation)", "threading/queue/time facades"],
    "assumptions": ["bounded liveness: both sides COMMUNICATING within T5 + T6 + T3 + delay + 10 virtual s after both are "
                    "enabled and faults stopped", "host results are compared with the equipment object's own tables at the "
                    "quiescent point after the call; calls cut by a disable/enable cycle may return None or raise"],
}

SCHEDS = [
    {"policy": "sticky", "preempt": "line"},
    {"policy": "random", "p": 0.05, "preempt": "line"},
    {"policy": "random", "p": 0.2, "preempt": "line"},
    {"policy": "pct", "d": 3, "horizon": 8000, "preempt": "line"},
    {"policy": "rr", "q": 4, "preempt": "line"},
    {"policy": "random", "p": 0.2, "preempt": "sync"},
    {"policy": "random", "p": 0.5, "preempt": "sync"},
    {"policy": "pct", "d": 2, "horizon": 150, "preempt": "sync"},
]
OPS = ["are_you_there", "request_svs", "request_sv", "list_svs", "request_ecs", "list_ecs", "set_ec", "set_ec", "set_ecs",
       "list_alarms", "enable_alarm", "subscribe", "trigger", "trigger", "go_online", "go_offline", "remote_command",
       "set_alarm", "clear_alarm", "operator", "cycle_host", "cycle_equipment", "cycle_mid_call", "clear_events",
       "subscribe", "call_and_trigger", "call_and_trigger"]


def gen_plan(rng, tier, index):
    ops = []
    if rng.random() < 0.6:
        ops.append(["subscribe", rng.randrange(1000)])
    for _ in range(rng.choice([2, 4, 7, 12, 20])):
        op = rng.choice(OPS)
        ops.append([op, rng.randrange(1000)])
    plan = {"host_active": rng.random() < 0.5, "first": rng.choice(["host", "equipment"]),
            "gap": rng.choice([0, 0, 0.01, 0.5, 3.0, 12.0]), "ops": ops, "t3": rng.choice([2.0, 5.0]),
            "t5": rng.choice([1, 2, 10]), "t6": rng.choice([1, 5]), "delay": rng.choice([1, 3]),
            "latency": rng.choice([0.0, 0.0005, 0.02, 0.2]), "jitter": rng.choice([0, 0, 0.005, 0.1]),
            "segment": rng.choice([None, None, 1, 3, 13, 100]),
            # TCP coalescing: what is sent within this many seconds arrives in one piece
            "coalesce": rng.choice([0, 0, 0.001, 0.02])}
    sched = dict(rng.choice(SCHEDS))
    sched["seed"] = rng.getrandbits(48)
    if rng.random() < 0.5:
        # fault: freshly started threads (API callers, connect/accept/receiver threads) are frozen for a while at one of
        # their first yield points
        sched["stall"] = {"q": rng.choice([0.1, 0.2, 0.4]), "J": rng.choice([8, 40, 200, 1000]),
                          "durs": [0.05, 0.5, 3.0], "max": 3}
        if rng.random() < 0.5:
            # wake-relative placement: shortly after one of the thread's first W wake-ups
            sched["stall"].update(W=rng.choice([0, 2, 6, 20]), J=rng.choice([5, 20, 60]))
    if "stall" not in sched and rng.random() < 0.2:
        # start-up variant: the first threads of the run (the two enable() callers and what they start) are frozen
        # somewhere in their first 150 yield points, i.e. in the middle of enable()
        sched["stall"] = {"q": 0.5, "J": rng.choice([60, 150]), "durs": [0.05, 0.5], "max": 2}
    if rng.random() < 0.4:
        # fault: a thread is descheduled for a moment just before one of its synchronisation calls
        sched["sync_stall"] = {"n": rng.choice([2, 4, 8, 16]), "horizon": rng.choice([200, 800, 3000, 10000]),
                               "durs": [0.002, 0.03]}
    plan["sched"] = sched
    return plan


def sample_view(plan):
    return plan


def shrink_candidates(plan):
    for key, val in (("segment", None), ("jitter", 0), ("latency", 0.0), ("gap", 0)):
        if plan.get(key):
            yield dict(plan, **{key: val})


def run(sim, plan):
    import secsgem.common
    import secsgem.gem
    import secsgem.hsms
    import secsgem.secs.variables as var

    k = sim.k
    net = sim.make_net(latency=plan["latency"], jitter=plan["jitter"], max_segment=plan["segment"], coalesce=plan.get("coalesce", 0))
    T3, T5, T6, DELAY = plan["t3"], plan["t5"], plan["t6"], plan["delay"]
    B = T5 + T6 + T3 + DELAY + 10 + 40 * plan["latency"]
    host_active = plan["host_active"]
    sim.probe("host_active" if host_active else "host_passive")

    def settings(active, dtype):
        mode = secsgem.hsms.HsmsConnectMode.ACTIVE if active else secsgem.hsms.HsmsConnectMode.PASSIVE
        return secsgem.hsms.HsmsSettings(connect_mode=mode, address="127.0.0.1", port=5000, device_type=dtype, t3=T3,
                                         t5=T5, t6=T6, establish_communication_timeout=DELAY)

    host = secsgem.gem.GemHostHandler(settings(host_active, secsgem.common.DeviceType.HOST))
    eq = secsgem.gem.GemEquipmentHandler(settings(not host_active, secsgem.common.DeviceType.EQUIPMENT),
                                         initial_control_state="ATTEMPT_ONLINE", initial_online_control_state="REMOTE")
    for h in (host, eq):
        h.protocol._linktest_timeout = 100000
    eq.status_variables[10] = secsgem.gem.StatusVariable(10, "sv10", "mm", var.U4, False)
    eq.status_variables[10].value = 7
    eq.status_variables["svt"] = secsgem.gem.StatusVariable("svt", "svtext", "", var.String, False)
    eq.status_variables["svt"].value = "init"
    eq.data_values[30] = secsgem.gem.DataValue(30, "token", var.U4, False)
    eq.data_values[30].value = 0
    eq.equipment_constants[20] = secsgem.gem.EquipmentConstant(20, "ec20", 0, 100, 50, "mm", var.U4, False)
    eq.collection_events[50] = secsgem.gem.CollectionEvent(50, "custom", [30])
    eq.alarms[25] = secsgem.gem.Alarm(25, "alarm25", "text 25", 1, 125, 225)
    received_events = []   # (ceid, rptid, values)
    alarms_rx = []
    host.events.collection_event_received += lambda d: received_events.append(
        (d["ceid"].get(), d["rptid"].get(), [v["value"] for v in d["values"]]))
    host.events.alarm_received += lambda d: alarms_rx.append((d["alid"].get(), d["code"].get()))

    def call(name, fn, timeout):
        """Run fn on an application thread; returns dict(done, result, exc)."""
        rec = {"done": False, "result": None, "exc": None}

        def body():
            try:
                rec["result"] = fn()
            except Exception as exc:  # noqa: BLE001
                rec["exc"] = exc
            rec["t1"] = k.now
            rec["done"] = True

        sim.spawn(body, f"app_{name}", role="app")
        if timeout is not None and not sim.wait_until(lambda: rec["done"], timeout):
            rec["timeout"] = True
        return rec

    def both_communicating():
        return host.communication_state.current.name == "COMMUNICATING" and \
            eq.communication_state.current.name == "COMMUNICATING"

    def stuck_sig(what):
        tops = sorted({th["stack"][-1] for th in sim.blocked_report() if th["role"] == "app" and th["stack"]})
        return f"C20.R4|{what}|" + "+".join(tops)

    def expect_communication(where):
        ok = sim.wait_until(both_communicating, B)
        if not ok:
            sim.violation("C20.R1", f"{where}: not both communicating after {B:.0f} virtual s (host "
                          f"{host.communication_state.current.name}/{host.protocol.connection_state.current.name}, equipment "
                          f"{eq.communication_state.current.name}/{eq.protocol.connection_state.current.name}); history "
                          f"{hist[-6:]}", sig=f"C20.R1|{where.split(':')[0]}|host-{host.communication_state.current.name}"
                          f"-eq-{eq.communication_state.current.name}")
        sim.advance(0.2 + 4 * plan["latency"])

    hist = []
    nontrivial = False
    # ---- start-up in the planned order ---------------------------------------------------------------------
    first, second = (host, eq) if plan["first"] == "host" else (eq, host)
    c1 = call("enable1", first.enable, 10)
    if plan["gap"]:
        sim.advance(plan["gap"])
        first_is_active = (first is host) == host_active
        if first_is_active and plan["gap"] >= 0.5:
            sim.probe("late_listener")
            nontrivial = True
    c2 = call("enable2", second.enable, 10)
    if not (c1["done"] and c2["done"]):
        sim.violation("C20.R4", "enable() did not return", sig=stuck_sig("enable"))
    hist.append(f"start:{plan['first']}-first gap={plan['gap']}")
    expect_communication("startup")
    # waitfor_communicating itself must agree
    for h, nm in ((host, "host"), (eq, "equipment")):
        r = call(f"waitfor_{nm}", lambda h=h: h.waitfor_communicating(1.0), 5)
        if not r["done"] or r["result"] is not True:
            sim.violation("C20.R1", f"waitfor_communicating on the {nm} returned {r['result']} while COMMUNICATING",
                          sig="C20.R1|waitfor-communicating")
    tokens = {"n": 0}
    subscribed = {}   # ceid -> report id
    rpt = {"n": 1000}
    api_timeout = T3 + 3 + 40 * plan["latency"]

    class Skip(Exception):
        pass

    def api(name, fn):
        t_call = k.now
        r = call(name, fn, api_timeout + 2 * T3)
        if not r["done"]:
            sim.violation("C20.R4", f"host call {name} did not return within {api_timeout + 2 * T3:.0f} virtual s; history "
                          f"{hist[-5:]}", sig=stuck_sig(f"api-{name}"))
        sim.advance(0.2 + 4 * plan["latency"])
        sim.probe("api_checked")
        if k.stalled_within(t_call, r["t1"] if r.get("t1") is not None else k.now) >= 0.4 * T3:
            # a thread on the call's path was frozen for a good part of T3 while the call ran: the call was cut by a
            # fault - it may raise, or a request inside it may have timed out silently (allowed, nothing is compared)
            sim.probe("api_cut_by_stall")
            raise Skip()
        if r["exc"] is not None:
            sim.violation("C20.R2", f"host call {name} raised {r['exc']!r} on a healthy, communicating link; history "
                          f"{hist[-5:]}", sig=f"C20.R2|{name}-raised-{type(r['exc']).__name__}")
        return r["result"]

    def cycle(side, nm, mid_call=False):
        nonlocal nontrivial
        nontrivial = True
        sim.probe("cycle_" + nm if not mid_call else "cycle_mid_call")
        pending = None
        if mid_call:
            pending = call("midcall", lambda: host.request_svs([10]), None)
            sim.run_others(int(plan["seed"] % 300) + 1, max_dt=0.5)
        d = call(f"disable_{nm}", side.disable, 60)
        if not d["done"]:
            sim.violation("C20.R4", f"{nm}.disable() did not return within 60 virtual s; history {hist[-5:]}",
                          sig=stuck_sig(f"disable-{nm}"))
        sim.advance(0.5)
        e = call(f"enable_{nm}", side.enable, 10)
        if not e["done"]:
            sim.violation("C20.R4", f"{nm}.enable() did not return", sig=stuck_sig(f"enable-{nm}"))
        expect_communication(f"cycle-{nm}")
        if pending is not None:
            if not sim.wait_until(lambda: pending["done"], 3 * T3 + 10):
                sim.violation("C20.R4", "a host call that was in flight during a disable/enable cycle never returned",
                              sig=stuck_sig("midcall"))
            res = pending["result"]
            if res is not None and pending["exc"] is None:
                vals = res.get()
                if vals != [eq.status_variables[10].value]:
                    sim.violation("C20.R2", f"call cut by a cycle returned wrong data {vals}", sig="C20.R2|midcall-wrong-data")
        subscribed.clear()   # event reports survive on the equipment, but the host side is re-checked from scratch
        # after a reconnect the equipment control state is whatever E30 prescribes for it; re-sync lazily

    def do_op(op, salt):
        nonlocal nontrivial
        # a thread frozen during an earlier operation finishes that operation's work first (its late report would carry
        # values set by this one)
        sim.wait_until(lambda: not k.stalled_now(), 6)
        if not both_communicating():
            expect_communication("before-" + op)
        if op == "are_you_there":
            res = api(op, host.are_you_there)
            if res is None or (res.header.stream, res.header.function) != (1, 2):
                sim.violation("C20.R2", f"are_you_there returned {res}", sig="C20.R2|are_you_there")
        elif op == "request_svs":
            ids = [[10], ["svt", 10], [10, 10, "svt"], [1002]][salt % 4]
            res = api(op, lambda: host.request_svs(ids))
            want = [eq.status_variables[i].value if i != 1002 else eq._get_control_state_id() for i in ids]
            got = None if res is None else res.get()
            got = [g[0] if isinstance(g, (bytes, list)) and i == 1002 and len(g) == 1 else g for g, i in zip(got or [], ids)]
            if got != want:
                sim.violation("C20.R2", f"request_svs({ids}) returned {got}, equipment holds {want}", sig="C20.R2|request_svs")
        elif op == "call_and_trigger":
            # a host call and an equipment event at the same time: two messages reach the host back to back
            if not subscribed:
                return
            ceid = sorted(subscribed)[salt % len(subscribed)]
            tokens["n"] += 1
            tok = 7000 + tokens["n"]
            eq.data_values[30].value = tok
            n0 = len(received_events)
            sim.probe("call_and_trigger")
            t_call = k.now
            if salt % 2:
                eq.trigger_collection_events([ceid])
                pending = call("concurrent_svs", lambda: host.request_svs([10]), None)
            else:
                pending = call("concurrent_svs", lambda: host.request_svs([10]), None)
                eq.trigger_collection_events([ceid])
            sim.focus(2)
            if not sim.wait_until(lambda: pending["done"], api_timeout + 2 * T3):
                sim.violation("C20.R4", "host call request_svs (concurrent with an event) did not return",
                              sig=stuck_sig("api-concurrent"))
            sim.wait_until(lambda: len(received_events) > n0, api_timeout)
            sim.advance(0.3 + 4 * plan["latency"])
            if k.stalled_within(t_call, k.now) >= 0.4 * T3:
                sim.probe("api_cut_by_stall")
                return
            if pending["exc"] is not None or pending["result"] is None or \
                    pending["result"].get() != [eq.status_variables[10].value]:
                sim.violation("C20.R2", f"request_svs([10]) issued together with an event returned "
                              f"{pending['exc'] or (pending['result'] and pending['result'].get())!r}, equipment holds "
                              f"{[eq.status_variables[10].value]}", sig="C20.R2|request_svs-concurrent")
            link = eq.registered_collection_events.get(ceid)
            want_n = len(link.reports) if link is not None and link.enabled else 0
            mine = [e for e in received_events[n0:] if e[0] == ceid and e[2] and tok in e[2]]
            if want_n and len(mine) != want_n:
                sim.violation("C20.R3", f"event {ceid} triggered together with a host call reached the host {len(mine)} "
                              f"times (reports linked: {want_n}); history {hist[-5:]}",
                              sig=f"C20.R3|event-count-{min(len(mine), 2)}-want-{min(want_n, 2)}|concurrent")
        elif op == "request_sv":
            res = api(op, lambda: host.request_sv("svt"))
            if res != eq.status_variables["svt"].value:
                sim.violation("C20.R2", f"request_sv('svt') returned {res!r}, equipment holds "
                              f"{eq.status_variables['svt'].value!r}", sig="C20.R2|request_sv")
        elif op == "list_svs":
            res = api(op, host.list_svs)
            got = None if res is None else [(e["SVID"], e["SVNAME"], e["UNITS"]) for e in res.get()]
            want = [(sv.svid, sv.name, sv.unit) for sv in eq.status_variables.values()]
            if got != want:
                sim.violation("C20.R2", f"list_svs returned {got}, equipment defines {want}", sig="C20.R2|list_svs")
        elif op == "request_ecs":
            ids = [[20], [1, 20], [2]][salt % 3]
            res = api(op, lambda: host.request_ecs(ids))
            want = [eq.settings.establish_communication_timeout if i == 1 else eq._time_format if i == 2
                    else eq.equipment_constants[i].value for i in ids]
            got = None if res is None else res.get()
            if got != want:
                sim.violation("C20.R2", f"request_ecs({ids}) returned {got}, equipment holds {want}", sig="C20.R2|request_ecs")
        elif op == "list_ecs":
            res = api(op, host.list_ecs)
            got = None if res is None else [(e["ECID"], e["ECNAME"]) for e in res.get()]
            want = [(ec.ecid, ec.name) for ec in eq.equipment_constants.values()]
            if got != want:
                sim.violation("C20.R2", f"list_ecs returned {got}, equipment defines {want}", sig="C20.R2|list_ecs")
        elif op == "set_ec":
            val = [0, 100, 37, 101, 55][salt % 5]
            before = eq.equipment_constants[20].value
            res = api(op, lambda: host.set_ec(20, val))
            after = eq.equipment_constants[20].value
            if 0 <= val <= 100:
                if res != 0 or after != val:
                    sim.violation("C20.R2", f"set_ec(20, {val}) returned EAC {res!r}, equipment now holds {after}",
                                  sig="C20.R2|set_ec-valid")
            elif res == 0 or after != before:
                sim.violation("C20.R2", f"set_ec(20, {val}) (out of range) returned EAC {res!r}, value {before}->{after}",
                              sig="C20.R2|set_ec-invalid")
        elif op == "set_ecs":
            # several constants in one request: applied completely or (one of them out of range / unknown) not at all
            pairs, valid = [([[20, 41], [2, 1]], True), ([[20, 42], [2, 7]], False), ([[2, 0], [20, 555]], False),
                            ([[20, 43], [9999, 1]], False), ([[2, 2], [20, 0]], True)][salt % 5]
            sim.probe("set_ecs_valid" if valid else "set_ecs_invalid")
            before = (eq.equipment_constants[20].value, eq._time_format)
            res = api(op, lambda: host.set_ecs(pairs))
            after = (eq.equipment_constants[20].value, eq._time_format)
            want = dict(pairs)
            if valid:
                if res != 0 or after != (want[20], want[2]):
                    sim.violation("C20.R2", f"set_ecs({pairs}) returned EAC {res!r}, equipment now holds (ec20, "
                                  f"time format) = {after}", sig="C20.R2|set_ecs-valid")
            elif res == 0 or after != before:
                sim.violation("C20.R2", f"set_ecs({pairs}) (one constant unknown / out of range) returned EAC {res!r}, "
                              f"(ec20, time format) {before} -> {after}", sig="C20.R2|set_ecs-invalid")
        elif op == "list_alarms":
            res = api(op, host.list_alarms)
            got = None if res is None else [(e["ALID"], e["ALCD"], e["ALTX"]) for e in res]
            want = [(a.alid, a.code | (128 if a.set else 0), a.text) for a in eq.alarms.values()]
            if got != want:
                sim.violation("C20.R2", f"list_alarms returned {got}, equipment holds {want}", sig="C20.R2|list_alarms")
        elif op == "enable_alarm":
            on = salt % 3 != 0
            res = api(op, (lambda: host.enable_alarm(25)) if on else (lambda: host.disable_alarm(25)))
            if res != 0 or eq.alarms[25].enabled != on:
                sim.violation("C20.R2", f"{'enable' if on else 'disable'}_alarm(25) returned {res!r}, equipment flag "
                              f"{eq.alarms[25].enabled}", sig="C20.R2|enable_alarm")
        elif op == "subscribe":
            ceid = [50, 20, 21][salt % 3]
            if ceid in subscribed:
                return
            rpt["n"] += 1
            rid = rpt["n"]
            vids = [[30, 10], [10, 30], [10, 30, "svt"], [30], ["svt", 30, 10]][(salt // 3) % 5]
            api(op, lambda: host.subscribe_collection_event(ceid, list(vids), rid))
            link = eq.registered_collection_events.get(ceid)
            if link is None or rid not in list(link.reports) or not link.enabled:
                sim.violation("C20.R2", f"subscribe_collection_event({ceid}, report {rid}) completed but the equipment has "
                              f"link {None if link is None else (list(link.reports), link.enabled)}",
                              sig="C20.R2|subscribe-not-effective")
            subscribed[ceid] = (rid, vids)
        elif op == "clear_events":
            api(op, host.clear_collection_events)
            sim.probe("clear_events")
            if eq.registered_reports or eq.registered_collection_events:
                sim.violation("C20.R2", f"clear_collection_events completed but the equipment still holds reports "
                              f"{sorted(map(str, eq.registered_reports))} / links "
                              f"{[(c, list(l.reports)) for c, l in eq.registered_collection_events.items()]}",
                              sig="C20.R2|clear-events-not-effective")
            subscribed.clear()
        elif op == "trigger":
            if not subscribed:
                return
            ceid = sorted(subscribed)[salt % len(subscribed)]
            tokens["n"] += 1
            tok = 7000 + tokens["n"]
            eq.data_values[30].value = tok
            n0 = len(received_events)
            t_op = k.now
            eq.trigger_collection_events([ceid])
            sim.wait_until(lambda: len(received_events) > n0, api_timeout)
            sim.wait_until(lambda: not k.stalled_now(), 6)
            sim.advance(0.3 + 4 * plan["latency"])
            if k.stalled_within(t_op, k.now) >= 0.4 * T3:
                sim.probe("api_cut_by_stall")
                return
            mine = [e for e in received_events[n0:] if e[0] == ceid]
            link = eq.registered_collection_events.get(ceid)
            want_n = len(link.reports) if link is not None and link.enabled else 0
            vids = subscribed[ceid][1]
            want_vals = [tok if v == 30 else eq.status_variables[v].value for v in vids]
            with_token = [e for e in mine if e[2] and tok in e[2]]
            wrong = [e for e in mine if e[1] == subscribed[ceid][0] and list(e[2]) != want_vals]
            if want_n and wrong:
                sim.violation("C20.R3", f"event {ceid} (report {subscribed[ceid][0]} over variables {vids}) reached the host "
                              f"with values {wrong[0][2]}, the equipment holds {want_vals}", sig="C20.R3|event-values")
            if want_n and (len(with_token) != want_n or len(mine) != want_n):
                sim.violation("C20.R3", f"event {ceid} triggered with token {tok} while enabled and communicating reached "
                              f"the host {len(with_token)} times (reports linked: {want_n}); received {mine}; history "
                              f"{hist[-5:]}", sig=f"C20.R3|event-count-{min(len(with_token), 2)}-want-{min(want_n, 2)}")
            if want_n:
                sim.probe("event_delivered")
        elif op == "go_online":
            state = eq.control_state.current.name
            res = api(op, host.go_online)
            want = 0 if state == "HOST_OFFLINE" else 2 if state.startswith("ONLINE") else 1
            if res != want:
                sim.violation("C20.R2", f"go_online in {state} returned ONLACK {res!r}, expected {want}", sig="C20.R2|go_online")
        elif op == "go_offline":
            res = api(op, host.go_offline)
            if res != 0:
                sim.violation("C20.R2", f"go_offline returned OFLACK {res!r}", sig="C20.R2|go_offline")
        elif op == "remote_command":
            n0 = len(received_events)
            link = eq.registered_collection_events.get(20)
            done_event = link is not None and link.enabled      # START reports CEID 20 (CMD_START_DONE) when subscribed
            try:
                res = api(op, lambda: host.send_remote_command("START", []))
            finally:
                if done_event:
                    # its completion event belongs to this operation: wait for it (the sender thread may be frozen), so
                    # that it is not mistaken for the event of a later trigger
                    sim.wait_until(lambda: len(received_events) > n0, api_timeout)
                    sim.wait_until(lambda: not k.stalled_now(), 6)
            hcack = None if res is None else res.HCACK.get()
            if hcack != 4:
                sim.violation("C20.R2", f"remote command START returned HCACK {hcack!r}, expected 4 (finish later)",
                              sig="C20.R2|remote_command")
            sim.advance(0.5)
        elif op in ("set_alarm", "clear_alarm"):
            a = eq.alarms[25]
            change = (op == "set_alarm") != a.set
            n0 = len(alarms_rx)
            t_op = k.now
            r = call(op, (lambda: eq.set_alarm(25)) if op == "set_alarm" else (lambda: eq.clear_alarm(25)), api_timeout)
            if not r["done"]:
                sim.violation("C20.R4", f"{op} did not return", sig=stuck_sig(op))
            sim.wait_until(lambda: not k.stalled_now(), 6)
            sim.advance(0.3 + 4 * plan["latency"])
            if k.stalled_within(t_op, k.now) >= 0.4 * T3:
                sim.probe("api_cut_by_stall")     # the report (or its S5F2) was held up by a frozen thread beyond T3
                return
            want = 1 if (change and a.enabled) else 0
            if len(alarms_rx) - n0 != want:
                sim.violation("C20.R3", f"{op}(25) with enabled={a.enabled} change={change}: host received "
                              f"{len(alarms_rx) - n0} alarm reports, expected {want}", sig="C20.R3|alarm-count")
        elif op == "operator":
            fn = [eq.control_switch_online, eq.control_switch_offline, eq.control_switch_online_local,
                  eq.control_switch_online_remote][salt % 4]
            r = call("operator", fn, api_timeout)
            if not r["done"]:
                sim.violation("C20.R4", "operator switch did not return", sig=stuck_sig("operator"))
            sim.advance(0.3)
        elif op == "cycle_host":
            cycle(host, "host")
        elif op == "cycle_equipment":
            cycle(eq, "equipment")
        elif op == "cycle_mid_call":
            cycle([host, eq][salt % 2], ["host", "equipment"][salt % 2], mid_call=True)

    for op, salt in plan["ops"]:
        hist.append(op)
        sim.log("op", op)
        try:
            do_op(op, salt)
        except Skip:
            continue
    # ---- final disable of both sides must return ----------------------------------------------------------------
    d1 = call("final_disable_host", host.disable, 60)
    d2 = call("final_disable_eq", eq.disable, 60)
    if not (d1["done"] and d2["done"]):
        sim.violation("C20.R4", "final disable() did not return", sig=stuck_sig("final-disable"))
    sim.nontrivial = nontrivial
    sim.abstract = (host_active, plan["first"], plan["gap"], [o for o, _ in plan["ops"]][:14])

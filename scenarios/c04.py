"""C04 - HSMS frames are bit-exact and reassembled independently of TCP segmentation.

Real: HsmsProtocol (framing loop, send queue, packetisation), ProtocolDispatcher (both threads), ByteQueue,
HsmsBlock/HsmsHeader encode/decode, real Tcp*Connection.  Stub: SimSocket, scripted peer (reference E37 codec).
"""

from __future__ import annotations

import random

from simkit import hsmsenv, refcodec as rc

PROP = "C04"
SHRINK = ("frames", "segments", "outbound")
LIMITS = {"max_steps": 1_500_000, "max_vtime": 1200.0}
BUDGET = {
    "quick": {"runs": 6000, "wall": 150, "chunk": 40, "minimise": 100},
    "thorough": {"runs": 200_000, "wall": 1500, "chunk": 100, "minimise": 200},
}
REQUIRED_PROBES = {"quick": ("cut_in_length", "cut_in_header", "cut_in_body", "multi_frame_segment",
                             "single_byte_segments", "outbound_multi_packet", "ends_with_separate", "prologue_cut_in_length",
                             "prologue_cut_in_header", "prologue_cut_in_body"),
                   "thorough": ("cut_in_length", "cut_in_header", "cut_in_body", "multi_frame_segment",
                                "single_byte_segments", "outbound_multi_packet", "body_ge_64k")}
EVIDENCE = {
    "level": "exploration",
    "rule": ("seeded frame lists (header fields with boundary bias, body lengths 0..3 MiB) and seeded partitions "
             "of the concatenated inbound byte stream; a run is non-trivial when at least one cut fell inside a "
             "frame or a segment carried more than one frame; in a quarter of the runs an earlier connection of "
             "the same endpoint ended 1-200 bytes into a frame (FIN/RST) before this one; distinct = distinct "
             "(sorted cut classes, #frames bucket, max body bucket, outbound packetisation, scheduler) tuples"),
    "real": ["secsgem.hsms.HsmsProtocol", "secsgem.common.ProtocolDispatcher", "secsgem.common.ByteQueue",
             "secsgem.hsms.HsmsBlock/HsmsHeader", "secsgem.common.TcpServerConnection/TcpClientConnection"],
    "stub": ["socket/select (SimSocket)", "threading/queue/time facades", "peer (reference E37 codec)"],
    "assumptions": ["PType is 0 and SType is one of the E37-defined values (other values are outside the E37 ranges "
                    "the property quantifies over)",
                    "frame lengths are >= 10 as E37 requires"],
}

SESSIONS = [0, 1, 0x7FFF, 0xFFFF, 0x1234]
STREAMS = [0, 1, 2, 5, 6, 7, 9, 10, 64, 99, 127]
FUNCS = [0, 1, 2, 3, 13, 14, 255, 128, 77]
SYSTEMS = [0, 1, 2, 0xFFFFFFFF, 0x80000000, 0x01020304]
BODY_LENS = [0, 0, 1, 2, 9, 10, 11, 255, 256, 1009, 1010, 1011, 1023, 1024, 1025, 4096]
BIG_LENS = [65535, 65536, 70000, 1 << 20, (1 << 20) + 1, 3 * (1 << 20)]

SCHEDS = [
    {"policy": "sticky", "preempt": "line"},
    {"policy": "random", "p": 0.05, "preempt": "line"},
    {"policy": "random", "p": 0.3, "preempt": "line"},
    {"policy": "pct", "d": 2, "horizon": 3000, "preempt": "line"},
    {"policy": "pct", "d": 5, "horizon": 8000, "preempt": "line"},
    {"policy": "rr", "q": 2, "preempt": "line"},
    {"policy": "random", "p": 0.2, "preempt": "sync"},
    {"policy": "random", "p": 0.5, "preempt": "sync"},
    {"policy": "pct", "d": 2, "horizon": 150, "preempt": "sync"},
]


def body_bytes(spec):
    kind = spec[0]
    if kind == "rand":
        return random.Random(spec[2]).randbytes(spec[1])
    if kind == "item":  # well-formed E5 item: <B n bytes>
        return rc.enc(rc.b(random.Random(spec[2]).randbytes(spec[1])))
    return bytes.fromhex(spec[1])


def gen_plan(rng, tier, index):
    nframes = rng.choice([1, 2, 3, 5, 8, 13, 25, 40]) if rng.random() < 0.8 else rng.randrange(1, 41)
    big_allowed = tier == "thorough" or index % 50 == 0
    frames = []
    for _ in range(nframes):
        r = rng.random()
        if r < 0.12:
            frames.append(["ctl", rc.LINKTEST_REQ, rng.choice(SYSTEMS + [rng.getrandbits(32)])])
            continue
        if r < 0.16:
            frames.append(["ctl", rc.LINKTEST_RSP, rng.getrandbits(32)])
            continue
        if r < 0.18:
            frames.append(["ctl", rc.REJECT_REQ, rng.getrandbits(32)])
            continue
        n = rng.choice(BODY_LENS)
        if big_allowed and rng.random() < (0.08 if tier == "quick" else 0.02):
            n = rng.choice(BIG_LENS)
            big_allowed = False
        if rng.random() < 0.2:
            n = rng.randrange(0, 3000)
        frames.append(["data", rng.choice(SESSIONS + [rng.getrandbits(16)]), rng.random() < 0.5,
                       rng.choice(STREAMS + [rng.randrange(128)]), rng.choice(FUNCS + [rng.randrange(256)]),
                       rng.choice(SYSTEMS + [rng.getrandbits(32)]),
                       [rng.choice(["rand", "item"]), n, rng.getrandbits(32)]])
    if rng.random() < 0.25:
        # the peer ends the session: everything in front of the Separate.req must still be delivered
        frames.append(["ctl", rc.SEPARATE_REQ, rng.getrandbits(32)])
    plan = {"active": rng.random() < 0.3, "frames": frames}
    # segmentation of the inbound stream: list of [size, gap_seconds, gap_steps]
    mode = rng.randrange(7)
    segs = []
    total = sum(14 + (0 if f[0] == "ctl" else _body_len(f[6])) for f in frames)
    remaining = total
    while remaining > 0 and len(segs) < 400:
        if mode == 0:
            n = 1
        elif mode == 1:
            n = rng.choice([1, 2, 3, 4, 5, 13, 14, 15, 18])
        elif mode == 2:
            n = rng.randrange(1, 40)
        elif mode == 3:
            n = rng.choice([1024, 1460, 536])
        elif mode == 4:
            n = rng.randrange(1, max(2, remaining + 1))
        elif mode == 5:
            n = rng.choice([14, 28, 42, 1, 4, 10])
        else:
            n = remaining
        n = min(n, remaining)
        gap = rng.choice([0, 0, 0, 0.0001, 0.002, 0.6])
        segs.append([n, gap, rng.choice([0, 0, 0, 1, 5, 40])])
        remaining -= n
    if remaining:
        segs.append([remaining, 0, 0])
    plan["segments"] = segs
    # outbound traffic from application threads
    outbound = []
    for _ in range(rng.choice([0, 1, 2, 4, 8])):
        kind = rng.choice(["s1f1", "s1f13", "s7f3", "s10f3", "s7f3", "resp"])
        size = rng.choice([0, 1, 6, 7, 8, 100, 1017, 1018, 1019, 5000])
        if kind == "s7f3" and (tier == "thorough" or index % 50 == 1) and rng.random() < 0.1:
            size = rng.choice([65536, (1 << 20) - 20, (1 << 20) + 5, 2 * (1 << 20) + 7])
        outbound.append([rng.randrange(3), kind, size, rng.getrandbits(32)])
    plan["outbound"] = outbound
    plan["packet_size"] = rng.choice([7, 1024, 1 << 20, 1 << 20, 13])
    if any(o[2] > 60000 for o in outbound) and plan["packet_size"] < 1024:
        plan["packet_size"] = 1024      # MiB-sized bodies in 7-byte packets only burn the step budget
    if any(o[2] > 60000 for o in outbound) or any(f[0] == "data" and f[6][1] > 60000 for f in frames):
        plan["limits"] = {"max_steps": 6_000_000, "max_vtime": 3000.0}
    plan["latency"] = rng.choice([0.0, 0.0005, 0.01])
    if rng.random() < 0.25:
        # an earlier connection of the same endpoint ended inside a frame: its bytes / framing state must not leak into
        # the stream of this one
        plan["prologue"] = {"body": rng.choice([0, 1, 10, 300]), "cut": rng.choice([1, 3, 4, 5, 13, 14, 15, 200]),
                            "how": rng.choice(["fin", "rst"]), "complete_first": rng.random() < 0.5}
    plan["device_id"] = rng.choice([0, 1, 0x7FFF, 300])
    sched = dict(rng.choice(SCHEDS))
    sched["seed"] = rng.getrandbits(48)
    plan["sched"] = sched
    return plan


def _body_len(spec):
    if spec[0] == "rand":
        return spec[1]
    if spec[0] == "item":
        n = spec[1]
        return n + (2 if n < 256 else 3 if n < 65536 else 4)
    return len(spec[1]) // 2


def sample_view(plan):
    return {"active": plan["active"], "frames": [f if f[0] == "ctl" else f[:6] + [f[6][:2]] for f in plan["frames"][:6]],
            "n_frames": len(plan["frames"]), "segments": plan["segments"][:10], "n_segments": len(plan["segments"]),
            "outbound": plan["outbound"], "packet_size": plan["packet_size"], "sched": plan["sched"]}


def shrink_candidates(plan):
    if len(plan["segments"]) > 1:
        total = sum(s[0] for s in plan["segments"])
        yield dict(plan, segments=[[total, 0, 0]])
    for i, f in enumerate(plan["frames"]):
        if f[0] == "data" and f[6][1] > 0:
            g = list(f)
            g[6] = [f[6][0], f[6][1] // 2, f[6][2]]
            yield dict(plan, frames=plan["frames"][:i] + [g] + plan["frames"][i + 1:])


def build_frame(f):
    if f[0] == "ctl":
        if f[1] == rc.REJECT_REQ:
            return rc.control(rc.REJECT_REQ, f[2], b2=5, b3=1)
        return rc.control(f[1], f[2])
    _, session, w, s, fn, system, body = f
    return rc.data(s, fn, w, system, body_bytes(body), session=session)


def run(sim, plan):
    import secsgem.hsms
    import secsgem.secs.functions as sf
    import secsgem.secs.variables as var

    active = plan["active"]
    sim.make_net(latency=plan["latency"], sndbuf=1 << 22)
    listener = hsmsenv.PeerListener(sim) if active else None
    ep = hsmsenv.Endpoint(sim, active, device_id=plan["device_id"], t6=5, t5=1)
    ep.proto.send_packet_size = plan["packet_size"]
    ep.proto.enable()

    def bring_up(idx):
        if active:
            if not sim.wait_until(lambda: len(listener.peers) > idx, 8):
                sim.inconclusive("active endpoint did not connect")
            peer = listener.peers[idx]
            if not sim.wait_until(lambda: peer.frames_of(rc.SELECT_REQ), 5):
                sim.inconclusive("no Select.req from the active endpoint")
            peer.send(rc.control(rc.SELECT_RSP, peer.frames_of(rc.SELECT_REQ)[0].system))
        else:
            peer = None
            for _ in range(8):
                sim.advance(0.6)
                peer = hsmsenv.connect_peer(sim)
                if peer is not None:
                    break
            if peer is None:
                sim.inconclusive("passive endpoint refused the connection")
            # session set-up is C05's subject: wait for the accept to finish before selecting
            sim.wait_until(lambda: ep.connected_n == idx + 1, 5)
            peer.send(rc.control(rc.SELECT_REQ, 0xFEED + idx))
        if not sim.wait_until(lambda: ep.state == "CONNECTED_SELECTED", 5):
            if idx and ep.state == "CONNECTED_NOT_SELECTED":
                # the previous connection ended inside a frame and the select procedure of this one is not understood
                sim.violation("C04.R2", f"after a connection that ended {pro['cut']} bytes into a frame the select "
                              f"procedure of the next connection did not complete (state {ep.state}): its frames are "
                              "not parsed from their first byte", sig="C04.R2|prologue-leak")
            sim.inconclusive(f"endpoint did not reach SELECTED ({ep.state})")
        return peer

    pro = plan.get("prologue")
    peer = bring_up(0)
    prologue_delivered = 0
    if pro:
        # previous connection: optionally one complete message, then the first `cut` bytes of another one, then the end
        if pro["complete_first"]:
            peer.send(rc.data(1, 1, False, 0x0BAD0001, b""))
            prologue_delivered = 1
        raw = rc.data(7, 3, False, 0x0BAD0002, (bytes(range(256)) * 2)[:pro["body"]]).encode()
        cut = min(pro["cut"], len(raw) - 1)
        peer.send_bytes(raw[:cut])
        sim.advance(0.3)
        if pro["how"] == "fin":
            peer.close()
        else:
            peer.reset()
        sim.probe("prologue_cut_in_length" if cut < 4 else "prologue_cut_in_header" if cut < 14 else
                  "prologue_cut_in_body")
        if not sim.wait_until(lambda: ep.state == "NOT_CONNECTED", 10):
            sim.inconclusive("endpoint did not notice the end of the previous connection (C09's subject)")
        if len(ep.received) != prologue_delivered:
            sim.violation("C04.R2", f"previous connection: {prologue_delivered} complete message(s) and {cut} bytes of an "
                          f"incomplete one were sent, {len(ep.received)} messages were delivered",
                          sig="C04.R2|prologue-delivery")
        peer = bring_up(1)
        del ep.received[:]
    n_out0 = len(peer.frames)

    # ---- outbound traffic from application threads -------------------------------------------
    by_thread: dict = {}
    for tid, kind, size, seed in plan["outbound"]:
        by_thread.setdefault(tid, []).append((kind, size, seed))
    expected_out = {}  # tid -> list of (stream, function, w, body bytes, result holder)

    def make_function(kind, size, seed):
        rnd = random.Random(seed)
        if kind == "s1f1":
            return sf.SecsS01F01(), (1, 1, True, b"")
        if kind == "s1f13":
            a1, a2 = "m" * (size % 20), "r" * (size % 7)
            return sf.SecsS01F13([a1, a2]), (1, 13, True, rc.enc(rc.ls(rc.a(a1), rc.a(a2))))
        if kind == "s7f3":
            blob = rnd.randbytes(size)
            return (sf.SecsS07F03({"PPID": "pp", "PPBODY": var.Binary(blob)}),
                    (7, 3, True, rc.enc(rc.ls(rc.a("pp"), rc.b(blob)))))
        if kind == "s10f3":
            text = "t" * min(size, 100)
            # E5: the reply to S10F3 is optional, so either W-bit value is accepted (None = not compared)
            return sf.SecsS10F03({"TID": 1, "TEXT": text}), (10, 3, None, rc.enc(rc.ls(rc.b(1), rc.a(text))))
        # response: S1F2 (empty list for a host) with an explicit system id
        return sf.SecsS01F02(), (1, 2, False, rc.enc(rc.ls()))

    calls = []
    for tid in sorted(by_thread):
        items = by_thread[tid]
        exp = expected_out.setdefault(tid, [])

        def worker(items=items, exp=exp, tid=tid):
            for kind, size, seed in items:
                func, (s, f, w, body) = make_function(kind, size, seed)
                if kind == "resp":
                    system = seed & 0xFFFFFFFF
                    ok = ep.proto.send_response(func, system)
                    exp.append((s, f, w, body, system, ok))
                else:
                    ok = ep.proto.send_stream_function(func)
                    exp.append((s, f, w, body, None, ok))

        calls.append(ep.call_async(f"sender{tid}", worker))

    # ---- inbound stream, cut as planned --------------------------------------------------------
    frames = [build_frame(f) for f in plan["frames"]]
    if frames and frames[-1].stype == rc.SEPARATE_REQ:
        sim.probe("ends_with_separate")
    stream = b"".join(f.encode() for f in frames)
    bounds = []
    pos = 0
    for f in frames:
        n = len(f.encode())
        bounds.append((pos, pos + n))
        pos += n
    pos = 0
    classes = set()
    for n, gap, steps in plan["segments"]:
        if pos >= len(stream):
            break
        piece = stream[pos:pos + n]
        start, end = pos, pos + len(piece)
        pos = end
        peer.send_bytes(piece)
        # classify the cut at `end`
        for (a, b_) in bounds:
            if a < end < b_:
                off = end - a
                classes.add("cut_in_length" if off < 4 else "cut_in_header" if off < 14 else "cut_in_body")
                break
        if sum(1 for (a, b_) in bounds if a >= start and b_ <= end) > 1:
            classes.add("multi_frame_segment")
        if gap:
            sim.advance(gap)
            if gap >= 0.3:
                # R5 (bounded liveness): at this quiescent point every frame that has completely arrived is delivered;
                # a message that is only delivered when later traffic arrives is lost if none follows
                complete = sum(1 for (a, b_), fr in zip(bounds, frames) if b_ <= end and fr.stype == 0)
                if len(ep.received) < complete:
                    sim.probe("r5_checked")
                    sim.violation("C04.R5", f"{complete} data frames have completely arrived and the link was quiet for "
                                  f"{gap} virtual s, but only {len(ep.received)} were delivered (delivery stalled until "
                                  "further traffic arrives)", sig="C04.R5|delivery-stalled")
                sim.probe("r5_checked")
        elif steps:
            sim.run_others(steps, max_dt=0.5)
    if pos < len(stream):
        peer.send_bytes(stream[pos:])
    if plan["segments"] and all(s[0] == 1 for s in plan["segments"]) and len(plan["segments"]) > 4:
        classes.add("single_byte_segments")
    for c in classes:
        sim.probe(c)
    max_body = max([len(f.body) for f in frames] + [0])
    if max_body >= 65535:
        sim.probe("body_ge_64k")
    sim.nontrivial = bool(classes)

    # ---- wait for quiescence ------------------------------------------------------------------
    data_frames = [f for f in frames if f.stype == 0]
    sim.wait_until(lambda: len(ep.received) >= len(data_frames) and all(c["done"] for c in calls), 60 + len(stream) / 2e4)
    sim.advance(1.0)

    # ---- R2: deliveries == data frames of the reference parse, same order -------------------------
    ref = rc.FrameParser()
    ref.feed(stream)
    want = [(f.system, f.stream, f.function, f.w, f.body, f.session, f.ptype) for f in ref.frames if f.stype == 0]
    got = [(r[1], r[2], r[3], r[4], r[5], r[6], r[7]) for r in ep.received]
    if got != want:
        k = next((i for i, (x, y) in enumerate(zip(got, want)) if x != y), min(len(got), len(want)))
        kind = "lost" if len(got) < len(want) else "extra" if len(got) > len(want) else "different"
        desc_w = _short(want[k]) if k < len(want) else None
        desc_g = _short(got[k]) if k < len(got) else None
        catalogued = None
        if k < len(want):
            catalogued = ep.settings.streams_functions.function(want[k][1], want[k][2]) is not None
        sim.violation("C04.R2", f"delivered messages differ from the frames sent ({len(got)} delivered, "
                      f"{len(want)} sent); first difference at #{k}: sent {desc_w}, delivered {desc_g}; "
                      f"function catalogued: {catalogued}",
                      sig=f"C04.R2|{kind}|" + ("uncatalogued-or-undecodable" if (kind == "lost" or desc_g != desc_w)
                                               and k < len(want) and not _decodable(ep, want[k]) else "framing"))
    # every Linktest.req answered exactly once with its system bytes
    out_frames = peer.frames[n_out0:]
    for f in ref.frames:
        if f.stype == rc.LINKTEST_REQ:
            n_req = sum(1 for g in ref.frames if g.stype == rc.LINKTEST_REQ and g.system == f.system)
            n_rsp = sum(1 for g in out_frames if g.stype == rc.LINKTEST_RSP and g.system == f.system)
            if n_rsp != n_req:
                sim.violation("C04.R2", f"{n_req} Linktest.req with system {f.system:#x} got {n_rsp} responses",
                              sig="C04.R2|linktest-responses")
    # ---- R1: outbound bytes parse to exactly the messages handed to successful sends ----------------
    if peer.parser.error or peer.parser.pending:
        sim.violation("C04.R1", f"outbound byte stream does not parse as E37 frames: error={peer.parser.error} "
                      f"trailing={peer.parser.pending}", sig="C04.R1|outbound-unparseable")
    out_data = [f for f in out_frames if f.stype == 0]
    for tid, exp in sorted(expected_out.items()):
        for (s, f, w, body, system, ok) in exp:
            if not ok:
                sim.violation("C04.R1", f"send of S{s}F{f} returned False on a healthy link", sig="C04.R1|send-failed")
    remaining = list(out_data)
    keys = [(s_, f_, body) for exp in expected_out.values() for (s_, f_, w, body, system, ok) in exp]
    for tid, exp in sorted(expected_out.items()):
        idx = -1
        for (s_, f_, w, body, system, ok) in exp:
            found = None
            for j, fr in enumerate(remaining):
                if (fr.stream, fr.function, fr.body) == (s_, f_, body) and (w is None or fr.w == w) \
                        and (system is None or fr.system == system) \
                        and fr.session == plan["device_id"] and fr.ptype == 0:
                    found = j
                    break
            if found is None:
                sim.violation("C04.R1", f"message S{s_}F{f_} ({len(body)} body bytes) handed to a successful send is "
                              f"not on the wire bit for bit (packet size {plan['packet_size']})",
                              sig="C04.R1|outbound-missing-or-altered")
            fr = remaining.pop(found)
            if keys.count((s_, f_, body)) == 1:
                # order is only judged between messages that are unique on the wire
                pos_in_out = out_data.index(fr)
                if pos_in_out < idx:
                    sim.violation("C04.R1", "per-thread send order not preserved on the wire", sig="C04.R1|order")
                idx = pos_in_out
    if remaining:
        sim.violation("C04.R1", f"{len(remaining)} data frames on the wire that nobody sent: {remaining[:3]}",
                      sig="C04.R1|outbound-extra")
    if any(len(b[3]) + 14 > plan["packet_size"] for e in expected_out.values() for b in e):
        sim.probe("outbound_multi_packet")
    # ---- R4: HsmsBlock decode/encode identity on every frame seen --------------------------------
    for fr in list(ref.frames) + out_frames:
        raw = fr.encode()
        blk = secsgem.hsms.HsmsBlock.decode(raw)
        h = blk.header
        if blk.encode() != raw or (h.device_id, h.require_response, h.stream, h.function, h.p_type, h.s_type.value,
                                   h.system, bytes(blk.data)) != (fr.session, fr.w, fr.stream, fr.function, fr.ptype,
                                                                  fr.stype, fr.system, fr.body):
            sim.violation("C04.R4", f"HsmsBlock.decode/encode is not the identity on {fr!r}", sig="C04.R4|roundtrip")
    sim.abstract = (sorted(classes), min(len(frames), 10), max_body.bit_length(), plan["packet_size"],
                    len(plan["outbound"]) > 0, plan["sched"]["policy"], active)


def _short(t):
    system, s, f, w, body, session, ptype = t
    return f"S{s}F{f}{'W' if w else ''} sys={system:#x} session={session:#x} body[{len(body)}]={body[:8].hex()}"


def _decodable(ep, t):
    """Would secsgem's catalogue decode this message (used only to classify the violation signature)?"""
    func = ep.settings.streams_functions.function(t[1], t[2])
    if func is None:
        return False
    try:
        func().decode(t[4])
    except Exception:  # noqa: BLE001
        return False
    return True

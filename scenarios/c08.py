"""C08 - every primary that expects a reply is answered exactly once with the same system bytes.

Real: SecsHandler._handle_stream_function/_handle_unknown_functions, callback table, inherited GEM handlers, the
HSMS receive/dispatch/send path, real Tcp*Connection.  Stub: SimSocket, scripted GEM peer (reference codecs).
"""

from __future__ import annotations

import random

from simkit import gemenv, refcodec as rc

PROP = "C08"
SHRINK = ("ops",)
LIMITS = {"max_steps": 800_000, "max_vtime": 900.0}
BUDGET = {
    "quick": {"runs": 4000, "wall": 150, "chunk": 40, "minimise": 120},
    "thorough": {"runs": 200_000, "wall": 1500, "chunk": 100, "minimise": 250},
}
REQUIRED_PROBES = {"quick": ("uncatalogued", "malformed_body", "no_w", "user_callback_raises", "user_callback_ok",
                             "burst", "system_zero", "system_reused", "transport_secsi", "secsi_contention",
                             "system_of_timed_out_linktest"),
                   "thorough": ("uncatalogued", "malformed_body", "no_w", "user_callback_raises", "user_callback_ok",
                                "burst", "system_zero", "system_reused", "transport_secsi", "secsi_contention",
                                "system_of_timed_out_linktest")}
EVIDENCE = {
    "level": "exploration",
    "rule": ("seeded sequences of primaries over the whole stream/function range (catalogued with inherited or "
             "harness-registered callbacks, catalogued without callback, uncatalogued), W set or not, bodies "
             "well-formed / empty / truncated / random / wrong format, injected singly or in bursts against equipment "
             "and host handlers, system bytes of finished transactions re-used, host handlers also over the SECS-I "
             "transport with ENQ contention; non-trivial = at least one primary was malformed, uncatalogued or had a raising "
             "callback; distinct = distinct (role, sorted set of (category, body kind, W) triples, scheduler)"),
    "real": ["secsgem.secs.SecsHandler", "secsgem.gem.GemEquipmentHandler / GemHostHandler (inherited handlers)",
             "secsgem.common.CallbackHandler", "secsgem.hsms.HsmsProtocol", "secsgem.common.Tcp*Connection"],
    "stub": ["socket/select (SimSocket)", "scripted GEM peer (reference E37/E5 codecs)"],
    "assumptions": ["R2 (no reply without W) is judged only where the harness knows handling raised nothing: its own "
                    "callbacks that return None, and inherited handlers given a well-formed body",
                    "requests the handlers make themselves (S6F11, S5F1, S1F1...) are answered by the peer and are told "
                    "apart by their system bytes (endpoint counter starts at 1000, peer uses 0x50000000+n)"],
}

SCHEDS = [
    {"policy": "sticky", "preempt": "line"},
    {"policy": "random", "p": 0.05, "preempt": "line"},
    {"policy": "random", "p": 0.3, "preempt": "line"},
    {"policy": "pct", "d": 2, "horizon": 3000, "preempt": "line"},
    {"policy": "rr", "q": 3, "preempt": "line"},
    {"policy": "random", "p": 0.2, "preempt": "sync"},
    {"policy": "random", "p": 0.5, "preempt": "sync"},
    {"policy": "pct", "d": 2, "horizon": 150, "preempt": "sync"},
]

# well-formed samples of host->equipment primaries with an inherited equipment handler
def _equipment_samples():
    return {
        (1, 1): None, (1, 3): rc.ls(rc.u4(1002)), (1, 11): rc.ls(), (1, 13): rc.ls(), (1, 15): None, (1, 17): None,
        (2, 13): rc.ls(), (2, 15): rc.ls(), (2, 17): None, (2, 29): rc.ls(),
        (2, 33): rc.ls(rc.u4(1), rc.ls()), (2, 35): rc.ls(rc.u4(1), rc.ls()),
        (2, 37): rc.ls(rc.boolean(True), rc.ls()), (2, 41): rc.ls(rc.a("NOPE"), rc.ls()),
        (5, 3): rc.ls(rc.b(0x80), rc.u4(99)), (5, 5): rc.ls(), (5, 7): None, (6, 15): rc.u4(1),
    }


def _host_samples():
    return {
        (1, 1): None, (1, 13): rc.ls(rc.a("m"), rc.a("r")),
        (5, 1): rc.ls(rc.b(0x81), rc.u4(7), rc.a("alarm")),
        (6, 11): rc.ls(rc.u4(1), rc.u4(5), rc.ls()), (9, 1): rc.b(bytes(10)), (9, 5): rc.b(bytes(10)),
        (10, 1): rc.ls(rc.b(0), rc.a("hello")),
    }


# callbacks registered by the harness: functions whose secondary and whose stream's F0 are catalogued, so that the
# callback can build its reply and the handler can build the abort
USER_SF = [(7, 1), (1, 21), (12, 1), (2, 25), (14, 1), (7, 5), (6, 19), (2, 23)]
CATALOGUED_NO_CALLBACK = [(7, 3), (7, 17), (7, 19), (12, 3), (14, 3), (10, 5), (5, 9), (6, 5), (2, 21)]
UNCATALOGUED = [(99, 1), (64, 1), (3, 17), (1, 99), (127, 255), (0, 1), (8, 1), (127, 1), (1, 255), (20, 5)]


def gen_plan(rng, tier, index):
    role = rng.choice(["equipment", "equipment", "host"])
    ops = []
    for _ in range(rng.choice([1, 3, 6, 12, 25, 40])):
        cat = rng.choice(["inherited", "inherited", "user_ok", "user_raise", "user_self", "user_none", "nocb", "uncat"])
        body = rng.choice(["sample", "sample", "empty", "trunc", "random", "wrongfmt", "overlong"])
        w = rng.random() < 0.75
        sysk = rng.choice(["seq", "seq", "seq", "zero", "max", "rand", "reuse", "reuse"])
        ops.append([cat, rng.randrange(1000), body, w, sysk, rng.getrandbits(24)])
    plan = {"role": role, "active": rng.random() < 0.3, "ops": ops, "burst": rng.choice([1, 1, 2, 4, 8]),
            "stagger": rng.choice([0, 1e-4, 3e-4, 1e-3, 5e-3, 2e-2]),
            "stagger_steps": rng.choice([0, 0, 150, 600, 1500]),
            "noise": rng.random() < 0.3, "latency": rng.choice([0.0, 0.0005, 0.01]),
            "initial_control": rng.choice(["ATTEMPT_ONLINE", "EQUIPMENT_OFFLINE", "ONLINE", "HOST_OFFLINE"])}
    if role == "host" and rng.random() < 0.5:
        # the same handlers over the SECS-I transport (the library is the host = contention slave; the scripted peer is
        # the equipment and wins ENQ contention, so replies of the library can collide with the next primary)
        plan["transport"] = "secsi"
    # an own Linktest.req that the peer left unanswered (T6) before the primaries arrive; a later primary of the peer
    # carries the same system bytes (both sides number their transactions independently)
    plan["lt_orphan"] = rng.random() < 0.25
    sched = dict(rng.choice(SCHEDS))
    sched["seed"] = rng.getrandbits(48)
    plan["sched"] = sched
    return plan


def sample_view(plan):
    return plan


def shrink_candidates(plan):
    if plan["burst"] > 1:
        yield dict(plan, burst=1)
    if plan["noise"]:
        yield dict(plan, noise=False)


def run(sim, plan):
    import secsgem.secs.functions as sf

    role = plan["role"]
    sim.make_net(latency=plan["latency"])
    kw = {"initial_control_state": plan["initial_control"]} if role == "equipment" else {}
    transport = plan.get("transport", "hsms")
    secsi = transport == "secsi"
    line = sim.make_line(a="SIMA", b="SIMB") if secsi else None
    if secsi:
        sim.probe("transport_secsi")
    env = gemenv.GemEnv(sim, role=role, active=plan["active"], t3=3.0, transport=transport, line=line, **kw)
    handler = env.handler
    user_log = []

    # harness-registered callbacks ---------------------------------------------------------------------------
    def make_cb(kind):
        def cb(h, message):
            # what the callback did is recorded per call: "returned" (a secondary), "sent" (answered by itself),
            # "none" or "raised"
            rec = {"kind": kind, "system": message.header.system, "did": "raised"}
            user_log.append(rec)
            if kind == "user_raise":
                raise RuntimeError("callback failed")
            s, f = message.header.stream, message.header.function
            secondary = None
            klass = h.settings.streams_functions.function(s, f + 1)
            if klass is not None:
                try:
                    secondary = klass()
                    secondary.encode()      # some default objects cannot be encoded (S7F6): then the callback fails
                except Exception:  # noqa: BLE001
                    secondary = None
            if secondary is None:
                raise AssertionError("harness: no secondary class")
            if kind == "user_ok":
                rec["did"] = "returned"
                return secondary
            # user_self / user_none: the callback answers by itself when a reply is expected and returns None
            if message.header.require_response:
                h.send_response(secondary, message.header.system)
                rec["did"] = "sent"
            else:
                rec["did"] = "none"
            return None
        return cb

    user_kinds = {}
    rnd = random.Random(plan["seed"])
    pool = list(USER_SF)
    for kind in ("user_ok", "user_raise", "user_self", "user_none"):
        s, f = pool.pop(rnd.randrange(len(pool)))
        user_kinds[kind] = (s, f)
        handler.register_stream_function(s, f, make_cb(kind))

    env.start()
    peer = env.establish()
    if peer is None:
        sim.inconclusive("could not establish communication")
    hp = peer.hp
    samples = _equipment_samples() if role == "equipment" else _host_samples()
    inherited = sorted(samples)
    injected = []   # dict(system, s, f, w, cat, body_kind)
    used_systems = set()
    seq = {"n": 0}

    orphan = {}
    if plan.get("lt_orphan") and not secsi:
        hp.auto_linktest = False
        lt_done = {"r": False}

        def _lt():
            env.proto.send_linktest_req()
            lt_done["r"] = True

        sim.spawn(_lt, "app_linktest", role="app")
        if not sim.wait_until(lambda: lt_done["r"], 2.0 + 3):
            sim.violation("C08.R1", "send_linktest_req() did not return after T6", sig="C08.R1|linktest-stuck")
        hp.auto_linktest = True
        lts = [f.system for f in hp.frames if f.stype == rc.LINKTEST_REQ]
        if lts:
            orphan["system"] = lts[-1]
            sim.probe("linktest_unanswered")

    def pick_system(kind, salt):
        if orphan.get("system") is not None and kind in ("seq", "rand") and orphan["system"] not in used_systems:
            sim.probe("system_of_timed_out_linktest")
            return orphan.pop("system")
        if kind == "zero" and 0 not in used_systems:
            sim.probe("system_zero")
            return 0
        if kind == "max" and 0xFFFFFFFF not in used_systems:
            return 0xFFFFFFFF
        if kind == "rand":
            v = 0x60000000 + salt
            if v not in used_systems:
                return v
        if kind == "reuse":
            # system bytes only have to be unique among open transactions: take those of a transaction of an earlier
            # group that is over (E37 7.x / E5: "unique ... for open transactions")
            cands = [j for j in injected if j["group"] < group_no["n"] and "end" not in j
                     and j["system"] not in (0, 0xFFFFFFFF)
                     and not any(k["system"] == j["system"] for k in injected if k["group"] == group_no["n"])]
            if cands:
                old = cands[salt % len(cands)]
                old["end"] = len(peer.inbox)
                sim.probe("system_reused")
                return old["system"]
        seq["n"] += 1
        return gemenv.PEER_SYS_BASE + 0x100 + seq["n"]

    def body_for(s, f, kind, salt):
        item = samples.get((s, f))
        good = b"" if item is None else rc.enc(item)
        if kind == "sample":
            return good, True
        if kind == "empty":
            return b"", item is None
        r = random.Random(salt)
        if kind == "trunc":
            if len(good) > 1:
                return good[:r.randrange(1, len(good))], False
            return bytes([0x01]), False          # list header without its length byte
        if kind == "random":
            return r.randbytes(r.choice([1, 2, 5, 17])), False
        if kind == "wrongfmt":
            return rc.enc(rc.f8(1.5)) if item is None or item.fmt != rc.F8 else rc.enc(rc.a("x")), False
        return bytes([0x21, 0x05, 0x01]), False  # overlong: binary item announcing 5 bytes, 1 present

    ops = plan["ops"]
    group_no = {"n": 0}

    def replies_to(inj):
        return [fr for fr in peer.inbox[inj["mark"]:inj.get("end")] if fr.system == inj["system"]]

    i = 0
    while i < len(ops):
        group = ops[i:i + plan["burst"]]
        i += len(group)
        group_no["n"] += 1
        stag = {"n": 0}
        if len(group) > 1:
            sim.probe("burst")
        for cat, pick, body_kind, w, sysk, salt in group:
            if cat == "inherited":
                s, f = inherited[pick % len(inherited)]
            elif cat in user_kinds:
                s, f = user_kinds[cat]
            elif cat == "nocb":
                s, f = CATALOGUED_NO_CALLBACK[pick % len(CATALOGUED_NO_CALLBACK)]
                if (s, f) in user_kinds.values():
                    continue
            else:
                s, f = UNCATALOGUED[pick % len(UNCATALOGUED)]
                if (s, f) in user_kinds.values():
                    continue
                sim.probe("uncatalogued")
            body, well_formed = body_for(s, f, body_kind if cat == "inherited" else
                                         ("sample" if body_kind == "sample" else body_kind), salt)
            if cat != "inherited" and body_kind == "sample":
                body, well_formed = b"", True
            if not well_formed:
                sim.probe("malformed_body")
            if not w:
                sim.probe("no_w")
            if cat == "user_raise":
                sim.probe("user_callback_raises")
            if cat == "user_ok":
                sim.probe("user_callback_ok")
            system = pick_system(sysk, salt)
            used_systems.add(system)
            # primaries of a burst arrive staggered, so that one can arrive while the previous one is being handled
            stag["n"] += 1
            fr = rc.data(s, f, w, system, body)
            if plan.get("stagger_steps") and stag["n"] > 1:
                # let the handler run a seeded number of kernel steps, then deliver the next primary at once: the arrival
                # phase is sampled uniformly over the processing of the previous message
                sim.run_others(1 + salt % plan["stagger_steps"], max_dt=0.2)
                hp.send(fr, delay=0)
            else:
                hp.send(fr, delay=plan["latency"] + plan.get("stagger", 0) * (stag["n"] - 1))
            injected.append({"system": system, "s": s, "f": f, "w": w, "cat": cat, "body": body_kind,
                             "group": group_no["n"], "mark": len(peer.inbox),
                             "has_cb": hasattr(handler, f"_on_s{s:02d}f{f:02d}") or (s, f) in user_kinds.values(),
                             "well_formed": well_formed,
                             "header": rc.data(s, f, w, system, body).header_bytes if not secsi else
                             rc.split_message(0, True, w, s, f, system, body)[0].encode()[1:11]})
            if plan["noise"]:
                # an unsolicited secondary between the primaries (not judged)
                peer.send_primary(1, 2, rc.ls(), False, system=0x7A000000 + len(injected))
        if len(group) > 1:
            sim.focus(2)
        sim.advance(0.3 + plan.get("stagger", 0) * len(group))
        # bounded liveness: at this quiescent point every W primary injected so far has its reply (an answer that only
        # appears when later traffic arrives is no answer if none follows)
        for inj in injected:
            if inj["w"] and not inj.get("seen") :
                if replies_to(inj):
                    inj["seen"] = True
                elif inj["cat"] not in ("user_none",):
                    sim.violation("C08.R1", f"S{inj['s']}F{inj['f']}W #{inj['system']:#x} ({inj['cat']}) was still unanswered "
                                  "0.3 virtual s after it arrived on a quiet link", sig=f"C08.R1|reply-stalled|{inj['cat']}")
    # quiescence: nested requests (S6F11 etc.) are answered by the peer at once; give T3 room anyway
    sim.advance(1.0)
    sim.wait_until(lambda: False, 0.5)

    # ---------------------------------------------------------------------------------------------------- oracle
    nontrivial = False
    cats = set()
    for inj in injected:
        cats.add((inj["cat"], inj["body"], inj["w"]))
        if not inj["well_formed"] or inj["cat"] in ("uncat", "user_raise"):
            nontrivial = True
        out = replies_to(inj)
        desc = f"S{inj['s']}F{inj['f']}{'W' if inj['w'] else ''} #{inj['system']:#x} ({inj['cat']}, body {inj['body']})"
        if len(out) > 1:
            sim.violation("C08.R3", f"{desc} was answered {len(out)} times: {out}", sig="C08.R3|answered-twice")
        if inj["w"]:
            if not out:
                sim.violation("C08.R1", f"{desc} got no reply at all", sig=f"C08.R1|no-reply|{inj['cat']}|" +
                              ("well-formed" if inj["well_formed"] else "malformed"))
            fr = out[0]
            ok = (fr.stream, fr.function) in ((inj["s"], inj["f"] + 1), (inj["s"], 0))
            if (fr.stream, fr.function) == (9, 5):
                try:
                    item = rc.decode_body(fr.body)
                    ok = item is not None and item.fmt == rc.B and item.value == inj["header"]
                except rc.DecodeError:
                    ok = False
                if not ok:
                    sim.violation("C08.R1", f"{desc}: S9F5 does not carry the offending header: body {fr.body.hex()}, "
                                  f"header {inj['header'].hex()}", sig="C08.R1|s9f5-wrong-header")
            if not ok:
                sim.violation("C08.R1", f"{desc} was answered with S{fr.stream}F{fr.function}, which is neither the "
                              "secondary, the stream's F0 abort nor S9F5", sig="C08.R1|wrong-reply-type")
            # which of the three it has to be
            got = (fr.stream, fr.function)
            if inj["cat"] == "inherited" and not inj["has_cb"]:
                want, what = (9, 5), "S9F5 (no callback)"
            elif inj["cat"] == "inherited":
                # a well-formed request is answered by its secondary; a malformed one by that or by the abort
                want, what = ((inj["s"], inj["f"] + 1) if inj["well_formed"] else None), "the secondary of the callback"
            elif inj["cat"] in user_kinds:
                # the harness's own callback: the k-th call for these system bytes belongs to the k-th injection
                same = [j for j in injected if j["system"] == inj["system"] and j["cat"] in user_kinds]
                calls = [r for r in user_log if r["system"] == inj["system"]]
                k = same.index(inj)
                did = calls[k]["did"] if k < len(calls) and len(calls) == len(same) else None
                if did in ("returned", "sent"):
                    want, what = (inj["s"], inj["f"] + 1), f"the secondary the callback {did}"
                elif did == "raised":
                    want, what = (inj["s"], 0), "the stream's function 0 (callback failed)"
                else:
                    want = None
            elif inj["cat"] in ("nocb", "uncat"):
                want, what = (9, 5), "S9F5 (no callback)"
            else:
                want = None
            if want is not None and got != want:
                sim.violation("C08.R1", f"{desc} was answered with S{got[0]}F{got[1]}, expected {what}",
                              sig=f"C08.R1|reply-kind|{inj['cat']}")
        else:
            did = None
            if inj["cat"] in user_kinds:
                same = [j for j in injected if j["system"] == inj["system"] and j["cat"] in user_kinds]
                calls = [r for r in user_log if r["system"] == inj["system"]]
                if len(calls) == len(same):
                    did = calls[same.index(inj)]["did"]
            judged = did == "none" or (inj["cat"] == "inherited" and inj["well_formed"])
            if judged and out:
                sim.violation("C08.R2", f"{desc} carries no W-bit and was handled without error, but a reply "
                              f"S{out[0].stream}F{out[0].function} was sent", sig=f"C08.R2|reply-without-w|{inj['cat']}",
                              stop=False)
    if secsi and env.hp.peer.contentions:
        sim.probe("secsi_contention")
    sim.nontrivial = nontrivial
    sim.abstract = (role, transport, sorted(cats)[:12], plan["burst"], plan["sched"]["policy"])

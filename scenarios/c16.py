"""C16 - SECS-I blocks split, checksum and reassemble any message body without loss; altered blocks are rejected.

Real: SecsIMessage._split_blocks, SecsIBlock encode/decode/checksum, SecsIHeader, Protocol._add_message_block, inside a
running SecsIProtocol on the real SerialConnection.  Stub: simulated serial line, reference E4 peer (independent codec).
"""

from __future__ import annotations

import random

from simkit import refcodec as rc, secsienv

PROP = "C16"
SHRINK = ("outbound", "inbound", "cases")
LIMITS = {"max_steps": 1_500_000, "max_vtime": 20000.0}
BUDGET = {
    "quick": {"runs": 2400, "wall": 150, "chunk": 30, "minimise": 100},
    "thorough": {"runs": 120_000, "wall": 1500, "chunk": 100, "minimise": 200},
}
REQUIRED_PROBES = {"quick": ("len_multiple_of_244", "len_0", "multi_block", "interleaved_out", "interleaved_in",
                             "corrupt_header", "corrupt_data", "corrupt_checksum"),
                   "thorough": ("len_multiple_of_244", "len_0", "multi_block", "interleaved_out", "interleaved_in",
                                "corrupt_header", "corrupt_data", "corrupt_checksum", "block_number_ge_16384")}
EVIDENCE = {
    "level": "fault_enumeration",
    "rule": ("message runs: seeded body lengths (0, 1, 243..245, 487..489, k*244, random <= 100 KiB; thorough: "
             "32767 blocks), header fields over their ranges, 2-3 concurrent senders so that blocks of different "
             "transactions interleave on the line, inbound blocks interleaved by the reference peer, seeded "
             "chunking of the line, a data/checksum byte of one outbound block altered on the line in 30 % of the "
             "runs; corruption runs: for canonical blocks with 0, 1 and 244 data bytes EVERY byte position of "
             "header, data and checksum x masks {0x01, 0x80, 0xFF, 0x40} is enumerated (index-driven, complete in "
             "the quick tier); non-trivial = a multi-block message, interleaving or a corruption was exercised; "
             "distinct = distinct (kind, length classes, #threads, chunk mode) or (block size, position, mask) "
             "tuples"),
    "real": ["secsgem.secsi.SecsIMessage/SecsIBlock/SecsIHeader", "secsgem.common.Message._split_blocks",
             "secsgem.common.Protocol._add_message_block/send_message", "secsgem.secsi.SecsIProtocol",
             "secsgem.common.SerialConnection"],
    "stub": ["serial.Serial on a simulated line (simkit.serialline)", "reference E4 peer and codec (simkit.refcodec)"],
    "assumptions": ["the length byte is outside the property's fault space and is never corrupted",
                    "only one side initiates at a time (no ENQ contention)"],
}

SCHEDS = [
    {"policy": "sticky", "preempt": "line"},
    {"policy": "random", "p": 0.1, "preempt": "line"},
    {"policy": "pct", "d": 2, "horizon": 3000, "preempt": "line"},
    {"policy": "rr", "q": 3, "preempt": "line"},
    {"policy": "random", "p": 0.2, "preempt": "sync"},
    {"policy": "random", "p": 0.5, "preempt": "sync"},
    {"policy": "pct", "d": 2, "horizon": 150, "preempt": "sync"},
]
LENS = [0, 0, 1, 2, 11, 243, 244, 245, 255, 487, 488, 489, 499, 732, 976, 1220, 2440]
MASKS = [0x01, 0x80, 0xFF, 0x40]
CANON = [0, 1, 244]


def _corruption_cases():
    cases = []
    for n in CANON:
        total = 1 + 10 + n + 2
        for pos in range(1, total):
            for m in MASKS:
                cases.append([n, pos, m])
    return cases


_CASES = _corruption_cases()
PER_RUN = 12


def gen_plan(rng, tier, index):
    n_corr_runs = (len(_CASES) + PER_RUN - 1) // PER_RUN
    plan = {"host": rng.random() < 0.5, "device": rng.choice([0, 1, 0x7FFF, 300]),
            "chunk": rng.choice(["whole", "whole", "bytes", "random", "small"]), "chunk_gap": rng.choice([0, 0.0002, 0.01])}
    if index < n_corr_runs or (tier == "thorough" and rng.random() < 0.15):
        i0 = (index % n_corr_runs) * PER_RUN
        plan["kind"] = "corrupt"
        plan["cases"] = _CASES[i0:i0 + PER_RUN] if index < n_corr_runs or tier == "quick" else \
            [rng.choice(_CASES) for _ in range(PER_RUN)]
        if tier == "thorough" and index >= n_corr_runs:
            # random blocks and positions too
            plan["cases"] = [[rng.choice([0, 1, 5, 100, 243, 244]), None, rng.choice(MASKS + [rng.randrange(1, 256)])]
                             for _ in range(PER_RUN)]
            for c in plan["cases"]:
                c[1] = rng.randrange(1, 13 + c[0])
    else:
        plan["kind"] = "messages"

        def msg(big_ok):
            n = rng.choice(LENS)
            r = rng.random()
            if r < 0.15:
                n = 244 * rng.randrange(1, 30)
            elif r < 0.3:
                n = rng.randrange(0, 4000)
            elif r < 0.34 and big_ok and plan["chunk"] in ("whole", "random"):
                n = rng.randrange(20000, 100000)
            return [n, rng.choice([0, 1, 5, 64, 127]), rng.choice([0, 1, 2, 13, 255]), rng.random() < 0.5,
                    rng.getrandbits(32)]

        out = []
        nthreads = rng.choice([1, 2, 2, 3])
        for t in range(nthreads):
            for _ in range(rng.choice([1, 1, 2, 3])):
                out.append([t] + msg(True))
        plan["outbound"] = out
        plan["inbound"] = [msg(True) + [rng.choice([plan["device"], plan["device"], 0x1234 & 0x7FFF])]
                           for _ in range(rng.choice([0, 1, 2, 3, 4]))]
        plan["interleave_seed"] = rng.getrandbits(32)
        if rng.random() < 0.3:
            # one block written by the endpoint is altered on the line (a data or checksum byte): k-th block, offset from
            # the end of the block, mask
            plan["out_corrupt"] = [rng.choice([0, 0, 1, 2, 3, 5]), rng.choice([1, 2, 3, 10]), rng.choice(MASKS)]
        if tier == "thorough" and rng.random() < 0.004:
            plan["outbound"] = [[0, 244 * 32767 - rng.choice([0, 1, 243]), 7, 3, True, rng.getrandbits(32)]]
            plan["inbound"] = []
            plan["chunk"] = "whole"
            plan["limits"] = {"max_steps": 12_000_000, "max_vtime": 100000.0}
    sched = dict(rng.choice(SCHEDS))
    sched["seed"] = rng.getrandbits(48)
    plan["sched"] = sched
    return plan


def sample_view(plan):
    return plan


def shrink_candidates(plan):
    if plan.get("chunk") != "whole":
        yield dict(plan, chunk="whole")
    for key in ("outbound", "inbound"):
        for i, m in enumerate(plan.get(key) or []):
            pos = 1 if key == "outbound" else 0
            if m[pos] > 0:
                new = list(m)
                new[pos] = m[pos] // 2 if m[pos] > 245 else m[pos] - 1
                yield dict(plan, **{key: plan[key][:i] + [new] + plan[key][i + 1:]})


def make_chunker(plan, rng):
    mode, gap = plan["chunk"], plan["chunk_gap"]

    def chunker(src, data):
        if mode == "whole" or len(data) <= 1:
            return [(0.0005, data)]
        out = []
        pos = 0
        while pos < len(data):
            if mode == "bytes":
                n = 1
            elif mode == "small":
                n = rng.choice([1, 2, 3, 7])
            else:
                n = rng.randrange(1, len(data) - pos + 1)
            out.append((0.0005 + gap * len(out), data[pos:pos + n]))
            pos += n
        return out

    return chunker


def run(sim, plan):
    import secsgem.secsi
    from secsgem.secsi.header import SecsIHeader
    from secsgem.secsi.message import SecsIMessage

    k = sim.k
    line = sim.make_line(a="SIMA", b="SIMB")
    line.chunker = make_chunker(plan, random.Random(plan["seed"] ^ 0xC16))
    host = plan["host"]
    device = plan["device"]
    proto = secsienv.make_endpoint(sim, "SIMA", host=host, device_id=device, t3=5)
    rec = secsienv.Recorder(sim, proto, "ep")
    peer = secsienv.SecsIPeer(sim, line, "SIMB")
    en = {"done": False}

    def enable():
        proto.enable()
        en["done"] = True

    sim.spawn(enable, "app_enable", role="app")
    if not sim.wait_until(lambda: en["done"], 5):
        sim.inconclusive("enable() did not return")
    sim.advance(0.1)

    if plan["kind"] == "corrupt":
        sim.nontrivial = True
        system = 0x100
        for n, pos, mask in plan["cases"]:
            system += 1
            body = bytes((i * 7 + n) & 0xFF for i in range(n))
            blk = rc.Block(device, not host, True, 7, 3, True, 1, system, body)
            raw = bytearray(blk.encode())
            orig = bytes(raw)
            raw[pos] ^= mask
            where = "corrupt_header" if pos <= 10 else "corrupt_data" if pos < 11 + n else "corrupt_checksum"
            sim.probe(where)
            sim.fault("byte_corrupted")
            n0 = len(rec.received)
            r0 = len(peer.tx_results)
            peer.send_blocks([bytes(raw)])
            if not sim.wait_until(lambda: len(peer.tx_results) > r0, 5):
                sim.violation("C16.R3", f"corrupted block ({n} data bytes, byte {pos} ^ {mask:#x}) got neither ACK nor NAK",
                              sig="C16.R3|no-answer")
            sim.advance(0.05)
            res = peer.tx_results[-1][1]
            if res != "nak" or len(rec.received) != n0:
                sim.violation("C16.R3", f"block with {n} data bytes whose byte {pos} ({where}) was altered by ^{mask:#x} "
                              f"({orig[pos]:#x} -> {raw[pos]:#x}) was answered '{res}' and delivered "
                              f"{len(rec.received) - n0} messages: {rec.received[n0:]}",
                              sig=f"C16.R3|accepted|{where}")
            # the same block unaltered must be accepted afterwards (line usable, decoder not wedged)
            r0 = len(peer.tx_results)
            peer.send_blocks([orig])
            if not sim.wait_until(lambda: len(peer.tx_results) > r0 and len(rec.received) > n0, 5) or \
                    peer.tx_results[-1][1] != "ack":
                sim.violation("C16.R2", f"the unaltered block after a corrupted one was not accepted/delivered",
                              sig="C16.R2|good-block-after-bad")
            got = rec.received[-1]
            if (got["system"], got["body"], got["stream"], got["function"]) != (system, body, 7, 3):
                sim.violation("C16.R2", f"delivered {got} for block system {system:#x}", sig="C16.R2|content")
        sim.abstract = ("corrupt", [tuple(c) for c in plan["cases"]][:3])
        return

    # ------------------------------------------------------------------------------------------ message runs
    oc = plan.get("out_corrupt")
    hit = {"n": 0, "system": None}
    if oc:
        def corrupt_write(src, data):
            if src == "SIMA" and len(data) >= 13 and data[0] + 3 == len(data):
                hit["n"] += 1
                if hit["n"] - 1 == oc[0]:
                    out = bytearray(data)
                    pos = max(11, len(out) - oc[1])      # header bytes stay intact: the block can be attributed
                    out[pos] ^= oc[2]
                    hit["system"] = int.from_bytes(data[7:11], "big")
                    sim.fault("byte_corrupted")
                    sim.probe("outbound_block_corrupted")
                    return bytes(out)
            return data

        line.corrupt_write = corrupt_write
    # phase A: the endpoint sends (2-3 threads), the reference peer receives and checks every block
    threads = {}
    for m in plan["outbound"]:
        threads.setdefault(m[0], []).append(m[1:])
    sent = []   # (system, header fields, body, result holder)
    calls = []
    sysn = {"n": 0x2000}
    for t, msgs in sorted(threads.items()):
        items = []
        for n, s, f, w, seed in msgs:
            sysn["n"] += 1
            body = random.Random(seed).randbytes(n)
            items.append((sysn["n"] if seed % 5 else seed, s, f, w, body))
        for it in items:
            sent.append({"system": it[0], "s": it[1], "f": it[2], "w": it[3], "body": it[4], "ok": None})

        def worker(items=items):
            for system, s, f, w, body in items:
                hdr = SecsIHeader(system, device, s, f, require_response=w, from_equipment=not host)
                msg = SecsIMessage(hdr, body)
                ok = proto.send_message(msg)
                for e in sent:
                    if e["system"] == system and e["body"] is body:
                        e["ok"] = ok

        rec_call = {"done": False}
        calls.append(rec_call)

        def body_fn(worker=worker, rec_call=rec_call):
            worker()
            rec_call["done"] = True

        sim.spawn(body_fn, f"app_sender{t}", role="app")
    nblocks = sum(max(1, (len(e["body"]) + 243) // 244) for e in sent)
    slow = plan["chunk_gap"] * 1.3 if plan["chunk"] != "whole" else 0.0
    out_bytes = sum(len(e["body"]) for e in sent) + nblocks * 16
    if not sim.wait_until(lambda: all(c["done"] for c in calls), 30 + nblocks * 0.6 + out_bytes * slow):
        sim.violation("C16.R2", "outbound send_message calls did not return", sig="C16.R2|send-stuck")
    sim.advance(0.2)
    classes = set()
    for e in sent:
        n = len(e["body"])
        if n == 0:
            sim.probe("len_0")
            classes.add("len0")
        if n and n % 244 == 0:
            sim.probe("len_multiple_of_244")
            classes.add("k244")
        if n > 244:
            sim.probe("multi_block")
            classes.add("multi")
        if n > 244 * 16383:
            sim.probe("block_number_ge_16384")
    # R1: every block the endpoint wrote
    if peer.errors:
        sim.violation("C16.R1", f"reference peer saw protocol errors: {peer.errors[:3]}", sig="C16.R1|line-protocol")
    per_sys = {}
    order = []
    for blk, ok, raw, t in peer.rx_blocks:
        if blk is not None and not ok and blk.system == hit["system"]:
            continue        # the block that was altered on the line
        if blk is None or not ok:
            sim.violation("C16.R1", f"endpoint sent a block with a wrong checksum or shape: {raw[:16].hex()}...",
                          sig="C16.R1|bad-checksum-sent")
        if len(blk.data) > 244 or raw[0] != 10 + len(blk.data):
            sim.violation("C16.R1", f"block with {len(blk.data)} data bytes, length byte {raw[0]}", sig="C16.R1|block-size")
        per_sys.setdefault(blk.system, []).append(blk)
        order.append(blk.system)
    if len(set(order)) > 1 and any(order[i] != order[i + 1] and order[i] in order[i + 1:] for i in range(len(order) - 1)):
        sim.probe("interleaved_out")
        classes.add("interleaved_out")
    for e in sent:
        blks = per_sys.get(e["system"], [])
        desc = f"message #{e['system']:#x} S{e['s']}F{e['f']} with {len(e['body'])} body bytes"
        if e["system"] == hit["system"]:
            # one of its blocks was altered in transit and refused: whatever the receiver reassembles from the blocks it
            # accepted must still be the original message - or nothing
            for m in [m for m in peer.messages if m["system"] == e["system"]]:
                if m["body"] != e["body"]:
                    sim.violation("C16.R2", f"{desc}: a block was altered on the line and refused, yet the receiver "
                                  f"assembled a message of {len(m['body'])} bytes from the accepted blocks "
                                  f"(blocks {[b.block for b in m['blocks']][:8]})", sig="C16.R2|outbound-reassembly-differs")
            continue
        if e["ok"] is not True:
            sim.violation("C16.R2", f"{desc}: send_message returned {e['ok']} on a fault-free line", sig="C16.R2|send-false")
        want_n = max(1, (len(e["body"]) + 243) // 244)
        if [b.block for b in blks] != list(range(1, want_n + 1)):
            sim.violation("C16.R1", f"{desc}: block numbers on the wire {[b.block for b in blks][:8]}.. ({len(blks)} "
                          f"blocks), expected 1..{want_n}", sig="C16.R1|block-numbers")
        if [b.e for b in blks] != [False] * (want_n - 1) + [True]:
            ebits = [i + 1 for i, b in enumerate(blks) if b.e]
            sim.violation("C16.R1", f"{desc}: end bit set on blocks {ebits} of {len(blks)}, expected only on the last",
                          sig="C16.R1|e-bit")
        for b in blks:
            if (b.device, b.r, b.w, b.stream, b.function, b.system) != (device, not host, e["w"], e["s"], e["f"], e["system"]):
                sim.violation("C16.R1", f"{desc}: header fields of block {b.block} differ: {b!r}", sig="C16.R1|header-fields")
        if b"".join(b.data for b in blks) != e["body"]:
            sim.violation("C16.R1", f"{desc}: concatenated block data differs from the body", sig="C16.R1|body")
        if any(len(b.data) != 244 for b in blks[:-1]):
            sim.violation("C16.R1", f"{desc}: a block other than the last carries fewer than 244 bytes", sig="C16.R1|short-block")

    # phase B: the reference peer sends messages with interleaved blocks; the endpoint reassembles
    rnd = random.Random(plan["interleave_seed"])
    inbound = []
    queues = []
    base = 0x9000
    for i, (n, s, f, w, seed, dev) in enumerate(plan["inbound"]):
        body = random.Random(seed).randbytes(n)
        system = base + i if seed % 4 else (seed & 0xFFFFFFFF) | 1
        blocks = rc.split_message(dev, host, w, s, f, system, body)   # R-bit: direction towards the endpoint
        inbound.append({"system": system, "s": s, "f": f, "w": w, "body": body, "device": dev, "n": len(blocks)})
        queues.append([b.encode() for b in blocks])
    seq = []
    live = [q for q in queues if q]
    last = None
    switched = False
    while live:
        q = rnd.choice(live)
        if last is not None and q is not last and last:
            switched = True
        seq.append(q.pop(0))
        last = q
        live = [x for x in queues if x]
    if switched:
        sim.probe("interleaved_in")
        classes.add("interleaved_in")
    n0 = len(rec.received)
    r0 = len(peer.tx_results)
    if seq:
        peer.send_blocks(seq)
        in_bytes = sum(len(b) for b in seq) + 3 * len(seq)
        if not sim.wait_until(lambda: len(peer.tx_results) - r0 >= len(seq), 30 + len(seq) * 0.6 + in_bytes * slow):
            sim.violation("C16.R2", "inbound blocks were not all acknowledged", sig="C16.R2|inbound-stuck")
        sim.advance(0.3)
        naks = [r for _b, r in peer.tx_results[r0:] if r != "ack"]
        if naks:
            sim.violation("C16.R2", f"{len(naks)} valid inbound blocks were not ACKed: {naks[:3]}", sig="C16.R2|valid-block-nak")
    got = rec.received[n0:]
    for m in inbound:
        if m["n"] > 1:
            sim.probe("multi_block")
            classes.add("multi")
        if len(m["body"]) and len(m["body"]) % 244 == 0:
            sim.probe("len_multiple_of_244")
        if len(m["body"]) == 0:
            sim.probe("len_0")
        mine = [g for g in got if g["system"] == m["system"]]
        desc = f"inbound message #{m['system']:#x} S{m['s']}F{m['f']} {len(m['body'])} bytes in {m['n']} blocks"
        if len(mine) != 1:
            sim.violation("C16.R2", f"{desc} was delivered {len(mine)} times", sig=f"C16.R2|delivered-{min(len(mine), 2)}")
        g = mine[0]
        if (g["stream"], g["function"], g["w"], g["device"], g["r"], g["body"]) != \
                (m["s"], m["f"], m["w"], m["device"], host, m["body"]):
            sim.violation("C16.R2", f"{desc} was delivered with different header/body: S{g['stream']}F{g['function']} "
                          f"w={g['w']} dev={g['device']} r={g['r']} {len(g['body'])} bytes", sig="C16.R2|reassembly-differs")
    if len(got) != len(inbound):
        sim.violation("C16.R2", f"{len(got)} messages delivered, {len(inbound)} sent", sig="C16.R2|extra-delivery")
    sim.nontrivial = bool(classes)
    sim.abstract = ("messages", sorted(classes), len(threads), plan["chunk"], host)

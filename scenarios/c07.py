"""C07 - GEM communication state follows the E30 establish-communications model.

Real: GemHandler / GemHostHandler / GemEquipmentHandler, CommunicationStateMachine with its two Timers, SecsHandler,
HsmsProtocol stack, real Tcp*Connection.  Stub: SimSocket, scripted peer.  Oracle: E30 model driven by the wire tap and
the virtual clock (DESIGN.md B.2).
"""

from __future__ import annotations

from simkit import facades, gemenv, refcodec as rc

PROP = "C07"
SHRINK = ("ops",)
LIMITS = {"max_steps": 600_000, "max_vtime": 2000.0}
BUDGET = {
    "quick": {"runs": 4000, "wall": 150, "chunk": 40, "minimise": 120},
    "thorough": {"runs": 200_000, "wall": 1500, "chunk": 100, "minimise": 250},
}
REQUIRED_PROBES = {"quick": ("commack_refused", "attempt_unanswered", "inbound_s1f13", "link_lost", "disable",
                             "message_while_not_communicating", "stale_s1f14", "transport_secsi",
                             "message_queued_across_disable"),
                   "thorough": ("commack_refused", "attempt_unanswered", "inbound_s1f13", "link_lost", "disable",
                                "message_while_not_communicating", "stale_s1f14", "s1f14_near_t3")}
EVIDENCE = {
    "level": "exploration",
    "rule": ("seeded histories over {enable, disable, link selected, link lost, inbound S1F13, S1F14 with COMMACK "
             "0/1 and current/stale/unknown system bytes, other primaries, waits around T3 and the establish "
             "delay}, host and equipment roles, T3 in {1,3}, delay in {1,4} or set to 10/11 s through S2F15 (ECID "
             "1), S1F14 and link loss injected together, HSMS and (a quarter of the runs) SECS-I transport; "
             "non-trivial = the history contains a refused or unanswered attempt, a link loss or a disable; "
             "distinct = distinct (role, op sequence, T3, delay, scheduler)"),
    "real": ["secsgem.gem.GemHandler/GemHostHandler/GemEquipmentHandler", "secsgem.gem.CommunicationStateMachine (real "
             "threading.Timer objects on the virtual clock)", "secsgem.secs.SecsHandler", "secsgem.hsms.HsmsProtocol",
             "secsgem.common.Tcp*Connection"],
    "stub": ["socket/select (SimSocket)", "scripted peer (reference codecs)"],
    "assumptions": ["R1 does not require the S1F14 to carry the system bytes of the current attempt (counted as probe "
                    "stale_s1f14_accepted): the statement says 'exchange ... completed on the current link'",
                    "R2 upper bound: the next S1F13 appears within T3 + delay + 0.5 s of the previous unanswered one, "
                    "within delay + 0.5 s of a refusal; lower bound: not earlier than delay - 0.05 s after the failure"],
}

SCHEDS = [
    {"policy": "sticky", "preempt": "line"},
    {"policy": "random", "p": 0.05, "preempt": "line"},
    {"policy": "random", "p": 0.3, "preempt": "line"},
    {"policy": "pct", "d": 2, "horizon": 3000, "preempt": "line"},
    {"policy": "rr", "q": 3, "preempt": "line"},
    {"policy": "random", "p": 0.2, "preempt": "sync"},
    {"policy": "random", "p": 0.5, "preempt": "sync"},
    {"policy": "pct", "d": 2, "horizon": 150, "preempt": "sync"},
]
OPS = ["answer_ok", "answer_ok", "answer_refuse", "answer_stale", "answer_unknown", "no_answer", "send_s1f13",
       "send_s1f13", "primary", "primary_user", "wait_short", "wait_t3m", "wait_t3p", "wait_delay", "wait_long",
       "link_lost", "cycle", "check", "slow_then_disable", "answer_drop", "answer_drop"]


def gen_plan(rng, tier, index):
    ops = [[rng.choice(OPS), rng.choice([0, 1, 2])] for _ in range(rng.choice([2, 4, 6, 10, 16, 24]))]
    plan = {"role": rng.choice(["equipment", "host"]), "active": rng.random() < 0.35, "ops": ops,
            "transport": rng.choice(["hsms", "hsms", "hsms", "secsi"]),
            "t3": rng.choice([1.0, 3.0]), "delay": rng.choice([1, 4]), "first": rng.choice(["ok", "ok", "refuse", "none"]),
            "latency": rng.choice([0.0, 0.0005, 0.01])}
    if plan["role"] == "equipment" and rng.random() < 0.25:
        # the host configures the establish-communications delay through equipment constant 1 (S2F15) once communication
        # is up; the rest of the history is judged against that value
        plan["ec_delay"] = rng.choice([10, 11])
        plan["first"] = "ok"
    sched = dict(rng.choice(SCHEDS))
    sched["seed"] = rng.getrandbits(48)
    plan["sched"] = sched
    return plan


def sample_view(plan):
    return plan


def shrink_candidates(plan):
    if plan["latency"]:
        yield dict(plan, latency=0.0)


def run(sim, plan):
    import secsgem.secs.functions as sf

    k = sim.k
    role = plan["role"]
    T3, DELAY = plan["t3"], plan.get("ec_delay") or plan["delay"]
    sim.make_net(latency=plan["latency"])
    transport = plan.get("transport", "hsms")
    secsi = transport == "secsi"
    line = sim.make_line(a="SIMA", b="SIMB") if secsi else None
    if secsi:
        sim.probe("transport_secsi")
    env = gemenv.GemEnv(sim, role=role, active=plan["active"], t3=T3, delay=plan["delay"], transport=transport, line=line,
                        **({"initial_control_state": "EQUIPMENT_OFFLINE"} if role == "equipment" else {}))
    handler = env.handler
    user_calls = []
    slow = {"on": False}

    def user_cb(_h, _m):
        user_calls.append((k.now, env.comm_state))
        if slow["on"]:
            slow["on"] = False
            facades.time_facade.sleep(1.0)   # a slow application callback: later messages queue up behind it
            return None                      # (the primary carried no W-bit: nothing to answer)
        return sf.SecsS02F26(b"\x01")

    handler.register_stream_function(2, 25, user_cb)
    # epoch bookkeeping (one epoch per HSMS select) -----------------------------------------------------------
    ep = {"n": 0, "established": False, "cr_sent": [], "policy": plan["first"], "events": []}
    hist = []

    def new_epoch():
        ep["n"] += 1
        ep["established"] = False
        ep["inbound_cr"] = []
        ep["refused_at"] = None
        ep["lost"] = False

    def peer_setup(peer):
        new_epoch()                 # a new link: nothing is established on it yet
        peer.answer_s1f13 = False   # S1F13 of the endpoint is answered by the history, not automatically
        peer.hp.handlers.append(lambda fr, peer=peer: on_frame(peer, fr))

    def on_frame(peer, fr):
        if fr.stype != 0:
            return
        if (fr.stream, fr.function) == (1, 13):
            ep["cr_sent"].append({"t": k.now, "system": fr.system, "answered": None, "epoch": ep["n"]})
        if (fr.stream, fr.function) == (1, 14):
            # the endpoint answers an inbound S1F13
            try:
                item = rc.decode_body(fr.body)
                commack = item.value[0].value[0]
            except Exception:  # noqa: BLE001
                commack = None
            if commack == 0 and any(s == fr.system for s in ep.get("inbound_cr", [])):
                ep["established"] = True
                ep["events"].append(("established-by-s1f13", k.now))

    env.configure_peer = peer_setup

    def send_s1f14(peer, system, commack):
        mdln = rc.ls() if role == "equipment" else rc.ls(rc.a("peer"), rc.a("1.0"))
        peer.hp.send(rc.data(1, 14, False, system, rc.enc(rc.ls(rc.b(commack), mdln))))

    def open_attempt():
        """The endpoint's latest S1F13 of this epoch that is still unanswered and younger than T3."""
        for cr in reversed(ep["cr_sent"]):
            if cr["epoch"] == ep["n"] and cr["answered"] is None and k.now - cr["t"] < T3 - 0.15:
                return cr
        return None

    def maybe_open():
        """An attempt of this epoch that may still be waiting for its S1F14 (inclusive of the T3 boundary region)."""
        return any(c["epoch"] == ep["n"] and c["answered"] in (None, "stale") and k.now - c["t"] < T3 + 0.1
                   for c in ep["cr_sent"])

    def check(where):
        """R1/R3/R4 at a quiescent point."""
        if secsi and env.hp.peer.contentions:
            sim.inconclusive("SECS-I ENQ contention between the endpoint's retry and a peer message (outside the statement)")
        st = env.comm_state
        if st == "COMMUNICATING" and not ep["established"]:
            why = "after link loss / disable, without a new exchange" if ep.get("lost") else \
                "without an S1F13/S1F14 exchange with COMMACK 0 on the current link"
            sim.violation("C07.R1", f"{where}: handler reports COMMUNICATING {why}; history {hist[-8:]}",
                          sig="C07.R1|" + ("after-link-loss" if ep.get("lost") else
                                           "refused" if ep.get("refused_at") is not None else "no-exchange"))
        if ep.get("lost") and st == "COMMUNICATING":
            sim.violation("C07.R3", f"{where}: still COMMUNICATING after the link was lost / handler disabled",
                          sig="C07.R3|still-communicating")

    env.start()
    hist.append("enable")
    peer = env.connect()
    if peer is None:
        sim.inconclusive("no HSMS link")
    hist.append("selected")
    sim.advance(0.05)
    nontrivial = False
    comm_events_at_start = env.communicating_n

    def wait(dt):
        sim.advance(dt)

    # first attempt handling according to plan["first"]
    ops = [[{"ok": "answer_ok", "refuse": "answer_refuse", "none": "no_answer"}[plan["first"]], 0]] + plan["ops"]
    for op_i, (op, arg) in enumerate(ops):
        peer = env.peer
        if op_i == 1 and plan.get("ec_delay"):
            # communication was established by the first exchange: set EstablishCommunicationsTimeout (ECID 1)
            if env.comm_state != "COMMUNICATING":
                sim.inconclusive("first exchange did not establish communication")
            rep_ = peer.request(2, 15, rc.ls(rc.ls(rc.u4(1), rc.i2(plan["ec_delay"]))), timeout=T3 + 1)
            ok_ = False
            try:
                ok_ = rep_ is not None and (rep_.stream, rep_.function) == (2, 16) and \
                    rc.decode_body(rep_.body).value == b"\x00"
            except Exception:  # noqa: BLE001
                ok_ = False
            if not ok_:
                sim.inconclusive(f"S2F15 for ECID 1 was not acknowledged with EAC 0 ({rep_!r}) - C13's subject")
            sim.probe("delay_set_by_s2f15")
            hist.append("s2f15-delay")
        hist.append(op)
        link_up = peer is not None and peer.hp.open and env.conn_state == "CONNECTED_SELECTED"
        if op in ("answer_ok", "answer_refuse", "answer_stale", "answer_unknown"):
            if not link_up:
                continue
            cr = open_attempt()
            if op == "answer_ok":
                if cr is None:
                    continue
                cr["answered"] = 0
                send_s1f14(peer, cr["system"], 0)
                ep["established"] = True
                if T3 - (k.now - cr["t"]) < 0.3:
                    sim.probe("s1f14_near_t3")
            elif op == "answer_refuse":
                if cr is None:
                    continue
                cr["answered"] = 1
                cr["answered_t"] = k.now
                ep["refused_at"] = k.now
                send_s1f14(peer, cr["system"], 1)
                sim.probe("commack_refused")
                nontrivial = True
            elif op == "answer_stale":
                old = [c for c in ep["cr_sent"] if c is not cr and c["answered"] is None]
                if not old:
                    continue
                sim.probe("stale_s1f14")
                send_s1f14(peer, old[0]["system"], 0)
                old[0]["answered"] = "stale"
                if cr is not None or maybe_open():
                    # an S1F14 COMMACK 0 while an attempt is open: accepted either way (see assumptions)
                    ep["established"] = ep["established"] or "maybe"
            else:
                sim.probe("stale_s1f14")
                send_s1f14(peer, 0x7E000000 + len(hist), 0)
                if cr is not None or maybe_open():
                    ep["established"] = ep["established"] or "maybe"
            t_send = k.now
            wait(0.2)
            if op in ("answer_stale", "answer_unknown") and any(
                    c["epoch"] == ep["n"] and abs(c["t"] - t_send) < 0.25 for c in ep["cr_sent"]):
                # a new attempt started at the very instant the unsolicited S1F14 arrived: it may count as its answer
                ep["established"] = ep["established"] or "maybe"
            check(op)
        elif op == "no_answer":
            sim.probe("attempt_unanswered")
            nontrivial = True
            wait(0.1)
        elif op == "send_s1f13":
            if not link_up:
                continue
            sim.probe("inbound_s1f13")
            system = peer.next_system()
            ep["inbound_cr"].append(system)
            body = rc.ls() if role == "equipment" else rc.ls(rc.a("peer"), rc.a("1.0"))
            state_before = env.comm_state
            peer.send_primary(1, 13, body, True, system=system)
            wait(0.2)
            out = peer.replies(system)
            if secsi and env.hp.peer.contentions:
                sim.inconclusive("SECS-I ENQ contention (outside the statement)")
            near_t3 = any(c["epoch"] == ep["n"] and abs((c["t"] + T3) - k.now) < 0.5 for c in ep["cr_sent"])
            # E30: the remote's S1F13 is answered while waiting for the reply to the own request, while waiting to repeat
            # it (WAIT_DELAY) and when communicating
            if state_before in ("WAIT_CRA", "WAIT_DELAY", "COMMUNICATING") and len(out) != 1 and not (
                    state_before == "WAIT_CRA" and near_t3 and not out):
                sim.violation("C07.R1", f"inbound S1F13 in {state_before} got {len(out)} replies",
                              sig=f"C07.R1|s1f13-replies-{len(out)}")
            check(op)
        elif op in ("primary", "primary_user"):
            if not link_up:
                continue
            state_before = env.comm_state
            n_user = len(user_calls)
            if op == "primary":
                system = peer.send_primary(1, 1, None, True)
            else:
                system = peer.send_primary(2, 25, rc.b(1), True)
            wait(0.2)
            out = peer.replies(system)
            if state_before != "COMMUNICATING" and env.comm_state != "COMMUNICATING":
                sim.probe("message_while_not_communicating")
                if out or len(user_calls) > n_user:
                    sim.violation("C07.R4", f"application message S{'1F1' if op == 'primary' else '2F25'} was handled "
                                  f"(reply {out[:1]}, user callback calls {len(user_calls) - n_user}) while the "
                                  f"communication state was {state_before}", sig="C07.R4|handled-while-not-communicating")
            check(op)
        elif op.startswith("wait"):
            dt = {"wait_short": 0.1, "wait_t3m": max(0.05, T3 - 0.1), "wait_t3p": T3 + 0.1, "wait_delay": DELAY + 0.05,
                  "wait_long": T3 + DELAY + 1.0}[op]
            wait(dt)
            check(op)
        elif op == "check":
            check(op)
        elif op in ("link_lost", "answer_drop"):
            if not link_up or secsi:
                continue
            sim.probe("link_lost")
            nontrivial = True
            if op == "answer_drop":
                # the S1F14 that completes the exchange and the end of the connection arrive together: the dispatcher
                # thread (s1f14 received) and the connection thread (communication failed) act at the same time
                cr = open_attempt()
                if cr is not None:
                    cr["answered"] = 0
                    send_s1f14(peer, cr["system"], 0)
                    sim.probe("s1f14_then_link_lost")
                    sim.focus(2)
            (peer.hp.close if arg != 1 else peer.hp.reset)()
            sim.wait_until(lambda: env.conn_state == "NOT_CONNECTED", 10)
            ep["lost"] = True
            ep["established"] = False
            wait(0.3)
            check("link_lost")
            peer = env.connect(timeout=plan.get("t5", 1) + 8)
            if peer is None:
                sim.inconclusive("link could not be re-established")
            ep["lost"] = False
            hist.append("selected")
            wait(0.05)
        elif op == "cycle":
            sim.probe("disable")
            nontrivial = True
            call = {"done": False}

            def dis():
                handler.disable()
                call["done"] = True

            sim.spawn(dis, "app_disable", role="app")
            if not sim.wait_until(lambda: call["done"], 40):
                sim.inconclusive("disable() did not return")
            ep["lost"] = True
            ep["established"] = False
            wait(0.2)
            st = env.comm_state
            if st != "DISABLED" and st == "COMMUNICATING":
                sim.violation("C07.R3", "COMMUNICATING after disable()", sig="C07.R3|communicating-after-disable")
            en = {"done": False}
            if secsi:
                new_epoch()   # the serial peer object persists: a re-enabled port is a new link

            def enable():
                handler.enable()
                en["done"] = True

            sim.spawn(enable, "app_enable", role="app")
            sim.wait_until(lambda: en["done"], 10)
            hist.append("enable")
            peer = env.connect(timeout=10)
            if peer is None:
                sim.inconclusive("link could not be re-established after disable/enable")
            ep["lost"] = False
            hist.append("selected")
            wait(0.05)
        elif op == "slow_then_disable":
            # two application messages back to back, the first one with a slow callback; the handler is disabled while
            # the second one still waits in the dispatcher: it must not reach a callback after the state was left
            if not link_up or env.comm_state != "COMMUNICATING":
                continue
            sim.probe("message_queued_across_disable")
            nontrivial = True
            slow["on"] = True
            n_user = len(user_calls)
            peer.send_primary(2, 25, rc.b(1), False)
            peer.send_primary(2, 25, rc.b(2), False)
            wait(0.3)
            call = {"done": False}

            def dis2():
                handler.disable()
                call["done"] = True

            sim.spawn(dis2, "app_disable", role="app")
            if not sim.wait_until(lambda: call["done"], 40):
                sim.inconclusive("disable() did not return")
            ep["lost"] = True
            ep["established"] = False
            wait(1.5)
            late = [c for c in user_calls[n_user + 1:]]
            if any(st != "COMMUNICATING" for _t, st in late):
                sim.violation("C07.R4", f"a message that was queued behind a slow callback was handed to the user callback "
                              f"after disable() (communication state at the call: {[st for _t, st in late]})",
                              sig="C07.R4|callback-after-disable")
            en = {"done": False}
            if secsi:
                new_epoch()

            def enable2():
                handler.enable()
                en["done"] = True

            sim.spawn(enable2, "app_enable", role="app")
            sim.wait_until(lambda: en["done"], 10)
            hist.append("enable")
            peer = env.connect(timeout=10)
            if peer is None:
                sim.inconclusive("link could not be re-established after disable/enable")
            ep["lost"] = False
            hist.append("selected")
            wait(0.05)
    # let the last attempt play out, then judge the retry spacing over the whole run
    wait(0.3)
    check("end")
    wait(T3 + DELAY + 1.0)

    # R2: retries while the link is selected and no exchange is established -------------------------------------------
    by_epoch = {}
    for cr in ep["cr_sent"]:
        by_epoch.setdefault(cr["epoch"], []).append(cr)
    for n, crs in by_epoch.items():
        for a, b in zip(crs, crs[1:]):
            gap = b["t"] - a["t"]
            if a["answered"] == 1:
                # refused at answered_t: retry after the delay
                since = b["t"] - a["answered_t"]
                if since < DELAY - 0.05:
                    sim.violation("C07.R2", f"refused attempt retried after {since:.2f}s, establish delay is {DELAY}s",
                                  sig="C07.R2|retry-too-early")
                if since > DELAY + 0.5:
                    sim.violation("C07.R2", f"refused attempt retried only after {since:.2f}s (delay {DELAY}s)",
                                  sig="C07.R2|retry-too-late")
            elif a["answered"] in (None, "stale"):
                if gap > T3 + DELAY + 0.5:
                    sim.violation("C07.R2", f"unanswered attempt retried only after {gap:.2f}s (T3 {T3} + delay {DELAY})",
                                  sig="C07.R2|retry-too-late")
                if gap < min(T3, DELAY) - 0.05:
                    sim.violation("C07.R2", f"unanswered attempt retried after {gap:.2f}s", sig="C07.R2|retry-too-early")
    # the last attempt of the final epoch: if it stayed unanswered/refused and the link stayed up for T3+delay+1 s, a
    # retry must have followed
    last_epoch = by_epoch.get(ep["n"], [])
    if last_epoch and env.conn_state == "CONNECTED_SELECTED" and not ep["established"]:
        last = last_epoch[-1]
        ref = last.get("answered_t", last["t"])
        if last["answered"] in (None, 1, "stale") and k.now - ref > T3 + DELAY + 0.6:
            sim.violation("C07.R2", f"attempt at t={last['t']:.2f} ({'refused' if last['answered'] == 1 else 'unanswered'}) "
                          f"was never retried although the link stayed up for {k.now - ref:.1f}s",
                          sig="C07.R2|no-retry|" + ("refused" if last["answered"] == 1 else "unanswered"))
    if not last_epoch and env.conn_state == "CONNECTED_SELECTED" and not ep["established"] and \
            env.comm_state != "COMMUNICATING":
        sim.violation("C07.R2", "no S1F13 was ever sent on the current link", sig="C07.R2|no-attempt")
    sim.nontrivial = nontrivial
    sim.abstract = (role, transport, [o for o, _ in plan["ops"]][:14], T3, DELAY, plan["sched"]["policy"], plan["first"])

"""C10 - the TCP transport delivers every accepted byte exactly once and in order, or reports failure.

Real: TcpConnection.send_data (on TcpClientConnection / TcpServerConnection), HsmsProtocol._process_send_queue
packetisation, connection set-up.  Stub: SimSocket with a finite send buffer, short writes and EAGAIN; raw paced reader.
"""

from __future__ import annotations

import random

from simkit import facades, hsmsenv, refcodec as rc
from simkit.sockets import SimSocket

PROP = "C10"
SHRINK = ("sends",)
LIMITS = {"max_steps": 1_500_000, "max_vtime": 2000.0}
BUDGET = {
    "quick": {"runs": 2400, "wall": 150, "chunk": 30, "minimise": 80},
    "thorough": {"runs": 150_000, "wall": 1500, "chunk": 100, "minimise": 150},
}
REQUIRED_PROBES = {"quick": ("short_write", "eagain", "size_above_buffer", "paced_reader", "peer_fin_mid_message",
                             "concurrent_senders", "frame_at_packet_boundary"),
                   "thorough": ("short_write", "eagain", "size_above_buffer", "paced_reader", "reset_mid_message",
                                "size_ge_1mib", "hard_error_during_send", "frame_at_packet_boundary")}
EVIDENCE = {
    "level": "exploration",
    "rule": ("seeded message sizes (1 byte .. 3 MiB, around the socket buffer size, frames of exactly k send packets +-1 byte), socket buffer sizes, reader "
             "pacings, optional RST or half-close, 1-3 sender threads on the protocol path; a run is non-trivial "
             "when at least one send() was short or hit EAGAIN; distinct = distinct (buffer size, size-class "
             "multiset, pacing, path, fault, scheduler)"),
    "real": ["secsgem.common.TcpConnection.send_data", "secsgem.common.TcpClientConnection/TcpServerConnection",
             "secsgem.hsms.HsmsProtocol._process_send_queue"],
    "stub": ["socket/select (SimSocket: finite send buffer, short counts, EAGAIN, EPIPE)", "raw paced reader"],
    "assumptions": ["socket model: send() on a non-blocking socket accepts min(len, free buffer) bytes and may accept "
                    "fewer (forced short writes), raises EAGAIN when the buffer is full; select() reports writable "
                    "when at least one byte is free"],
}

SCHEDS = [
    {"policy": "sticky", "preempt": "line"},
    {"policy": "random", "p": 0.1, "preempt": "line"},
    {"policy": "pct", "d": 2, "horizon": 3000, "preempt": "line"},
    {"policy": "rr", "q": 3, "preempt": "line"},
    {"policy": "random", "p": 0.2, "preempt": "sync"},
    {"policy": "random", "p": 0.5, "preempt": "sync"},
    {"policy": "pct", "d": 2, "horizon": 150, "preempt": "sync"},
]
BUFS = [1, 7, 512, 4096, 65536, 212992]


def gen_plan(rng, tier, index):
    buf = rng.choice(BUFS)
    sizes = [1, 10, max(1, buf - 1), buf, buf + 1, 2 * buf + 3, 5022, 65536]
    big = tier == "thorough" or index % 40 == 0
    sends = []
    for _ in range(rng.choice([1, 2, 3, 5, 8])):
        n = rng.choice(sizes)
        if big and rng.random() < 0.15:
            n = rng.choice([(1 << 20) - 1, 1 << 20, (1 << 20) + 1, 3 * (1 << 20)])
            big = False
        if buf <= 7:
            n = min(n, 3000)
        sends.append([n, rng.getrandbits(32)])
    plan = {
        "active": rng.random() < 0.5, "buf": buf, "sends": sends,
        "path": rng.choice(["raw", "raw", "protocol"]),
        "pacing": rng.choice(["immediate", "delayed", "small", "stopgo"]),
        "read_size": rng.choice([1, 7, 100, 1024, 65536]),
        "read_gap": rng.choice([0.0001, 0.001, 0.02]),
        "forced_short_p": rng.choice([0, 0, 0.2, 0.6]), "eagain_p": rng.choice([0, 0, 0.1, 0.5]),
        "reset_after": None, "packet_size": rng.choice([1024, 1 << 20, 4000]),
        "latency": rng.choice([0.0, 0.0005]),
        # protocol path only: number of application threads that send at the same time
        "senders": rng.choice([1, 1, 2, 3]),
    }
    # keep the number of simulated send()/recv() calls per run bounded
    for s_ in sends:
        s_[0] = max(1, min(s_[0], buf * 1500))
    total = sum(s_[0] for s_ in sends)
    if plan["pacing"] != "immediate":
        plan["read_size"] = max(plan["read_size"], total // 1500 + 1)
    if rng.random() < 0.3:
        plan["reset_after"] = rng.randrange(0, total + 1)
        # the peer either resets the connection or stops reading and half-closes it (FIN) at that point
        plan["fault_kind"] = rng.choice(["rst", "fin", "fin"])
    if buf <= 7 and plan["pacing"] in ("small", "stopgo"):
        plan["read_size"] = max(plan["read_size"], 100)
    if plan["path"] == "protocol" and rng.random() < 0.4:
        # boundary of the packetisation: the encoded frame (4 + 10 + body) is k packets long exactly, or one byte
        # less / more
        ps = plan["packet_size"]
        k_, d_ = rng.choice([1, 1, 2, 3]), rng.choice([0, 0, -1, 1])
        limit = min(buf * 1500, 3000 if buf <= 7 else 1 << 30)
        for lb in (1, 2, 3):
            n = k_ * ps + d_ - 14 - 5 - 1 - lb
            if n >= 1 and (n < 256) == (lb == 1) and (n < 65536) == (lb <= 2) and n <= limit:
                rng.choice(sends)[0] = n
                plan["packet_boundary"] = [k_, d_]
                break
    sched = dict(rng.choice(SCHEDS))
    sched["seed"] = rng.getrandbits(48)
    plan["sched"] = sched
    return plan


def sample_view(plan):
    return plan


def shrink_candidates(plan):
    for i, s in enumerate(plan["sends"]):
        if s[0] > 1:
            yield dict(plan, sends=plan["sends"][:i] + [[s[0] // 2, s[1]]] + plan["sends"][i + 1:])
    if plan["forced_short_p"]:
        yield dict(plan, forced_short_p=0)
    if plan.get("eagain_p"):
        yield dict(plan, eagain_p=0)


def run(sim, plan):
    import secsgem.secs.functions as sf
    import secsgem.secs.variables as var

    k = sim.k
    active = plan["active"]
    net = sim.make_net(latency=plan["latency"], sndbuf=plan["buf"], short_write_p=plan["forced_short_p"],
                       eagain_p=plan.get("eagain_p", 0))
    received = bytearray()
    accepted = bytearray()     # every byte the endpoint's socket accepted from send(), in order
    state = {"eof": None, "sock": None}
    accepted_raw = bytearray()  # ... of these, the bytes written by the scenario's own raw sender thread

    def _tap(side, conn_id, chunk):
        if side == ep_side["s"]:
            accepted.extend(chunk)
            if k.current.name.endswith("app_sender"):
                accepted_raw.extend(chunk)

    net.taps.append(_tap)
    ep_side = {"s": "client" if active else "server"}

    def attach(sock):
        state["sock"] = sock
        sock.on_eof = lambda rst: state.__setitem__("eof", "rst" if rst else "fin")
        if plan["pacing"] == "immediate":
            sock.on_bytes = lambda chunk: _rx(chunk)
        else:
            sim.spawn(lambda: reader(sock), "paced_reader")

    def _rx(chunk):
        received.extend(chunk)
        rs = plan["reset_after"]
        if rs is not None and active:
            rs += 14  # the fault is placed in the payload, after the endpoint's own Select.req
        if rs is not None and len(received) >= rs and state["sock"]._fd >= 0 and not state.get("reset_done"):
            state["reset_done"] = True
            sim.fault("reset_mid_message")
            net.refuse_all = True   # the link stays down afterwards
            if plan.get("fault_kind", "rst") == "rst":
                state["sock"].reset()
            else:
                # half-close: the peer sends FIN, keeps its socket open and stops reading, so the sender's buffer stays
                # full; it gives up (full close) a few seconds later
                sim.fault("peer_fin_mid_message")
                state["stop_reading"] = True
                state["sock"].on_bytes = None
                state["sock"].shutdown(1)
                k.schedule(4.0, state["sock"].close)

    def reader(sock):
        sim.probe("paced_reader")
        if plan["pacing"] == "delayed":
            facades.time_facade.sleep(1.5)
        n = 0
        while sock._fd >= 0 and not state.get("stop_reading"):
            r, _, _ = facades_select([sock], [], [], 0.5)
            if not r:
                if state["eof"]:
                    break
                continue
            try:
                data = sock.recv(plan["read_size"] if plan["pacing"] != "delayed" else 65536)
            except OSError:
                break
            if not data:
                break
            _rx(data)
            n += 1
            if plan["pacing"] == "small":
                facades.time_facade.sleep(plan["read_gap"])
            elif plan["pacing"] == "stopgo" and n % 5 == 0:
                facades.time_facade.sleep(0.3)

    from simkit.sockets import sim_select as facades_select

    ep = hsmsenv.Endpoint(sim, active, t5=1, t6=5)
    ep.proto.send_packet_size = plan["packet_size"]
    ep.proto._linktest_timeout = 100000
    if active:
        lst = SimSocket(_net=net)
        lst.bind(hsmsenv.ADDR)
        lst.listen(1)
        lst.on_accept = attach
        ep.proto.enable()
        if not sim.wait_until(lambda: state["sock"] is not None and ep.connected_n == 1, 5):
            sim.inconclusive("no connection")
    else:
        ep.proto.enable()
        sim.advance(0.6)
        s = SimSocket(_net=net)
        try:
            s.connect(hsmsenv.ADDR)
        except ConnectionRefusedError:
            sim.inconclusive("refused")
        attach(s)
        if not sim.wait_until(lambda: ep.connected_n == 1, 5):
            sim.inconclusive("no connection")
    sock = state["sock"]
    conn = ep.proto._connection
    results = []   # (bytes, ok) in completion order
    path = plan["path"]
    if path == "protocol":
        # the endpoint must be selected for nothing here (send path does not check); frames are HSMS messages
        pass
    if plan.get("packet_boundary"):
        sim.probe("frame_at_packet_boundary")
    if any(n > plan["buf"] for n, _ in plan["sends"]):
        sim.probe("size_above_buffer")
    if any(n >= (1 << 20) - 1 for n, _ in plan["sends"]):
        sim.probe("size_ge_1mib")

    hard_errors = []   # sends during which socket.send() raised a hard error (EPIPE/ECONNRESET)

    n_senders = plan.get("senders", 1) if path == "protocol" else 1
    if n_senders > 1 and len(plan["sends"]) > 1:
        sim.probe("concurrent_senders")

    def sender(tid=0):
        for n, seed in plan["sends"][tid::n_senders]:
            blob = random.Random(seed).randbytes(n)
            if path == "raw":
                e0 = net.hard_errors.count("app_sender")
                ok = conn.send_data(blob)
                results.append((blob, ok))
                if net.hard_errors.count("app_sender") > e0:   # raised inside this very call (same thread)
                    hard_errors.append((n, ok))
            else:
                func = sf.SecsS07F03({"PPID": "p", "PPBODY": var.Binary(blob)})
                ok = ep.proto.send_stream_function(func)
                results.append((rc.enc(rc.ls(rc.a("p"), rc.b(blob))), ok, tid))

    # active endpoints send their Select.req first (from their own select thread): it is part of the byte stream and
    # must be out before the raw sends start, send_data is not meant to be called from two threads at once
    if active:
        sim.wait_until(lambda: len(received) >= 14 or (state["sock"]._rx and len(state["sock"]._rx) >= 14), 30)
        if plan["pacing"] != "immediate":
            sim.wait_until(lambda: len(received) >= 14, 40)
    call = ep.call_async("sender", sender)
    more = [ep.call_async(f"sender{t}", lambda t=t: sender(t)) for t in range(1, n_senders)]
    if more:
        all_calls = [call] + more
        call = {"done": False}

        def _all_done():
            call["done"] = all(c["done"] for c in all_calls)
            return call["done"]
    else:
        def _all_done():
            return call["done"]
    total = sum(n for n, _ in plan["sends"])
    reads = total / max(1, min(plan["buf"], plan["read_size"])) + 1
    limit = 60 + total / 2000 + reads * (plan["read_gap"] + 0.7)
    done = sim.wait_until(lambda: _all_done() or state.get("reset_done"), limit)
    if state.get("reset_done"):
        limit = 30    # after the peer reset/half-closed the link nothing is drained any more
        done = sim.wait_until(_all_done, limit)
    if not done and state.get("reset_done") is None:
        sim.violation("C10.R2", f"send did not complete within {limit:.0f} virtual s although the reader keeps "
                      "draining", sig="C10.R2|send-stuck")
    # let the reader drain, then close from the endpoint side to get EOF
    sim.wait_until(lambda: sock._peer is None or sock._peer._inflight == 0, limit)
    sim.advance(0.5)
    dis = ep.call_async("disable", ep.proto.disable)
    sim.wait_until(lambda: dis["done"], 60)
    sim.wait_until(lambda: state["eof"] is not None or sock._fd < 0, 10)
    sim.advance(2.0)

    # -------------------------------------------------------------------------------------------------- oracle
    stream = bytes(received)
    if k.faults.get("short_write", 0) or k.faults.get("eagain", 0):
        sim.nontrivial = True
    # strip HSMS control frames the protocol itself emitted (Select.req at start, Separate.req at end) and, on the
    # protocol path, unwrap data frames
    payload = bytearray()
    frame_bodies = []
    if path == "raw":
        # the stream is: [Select.req if active] + raw blobs + [Separate.req]; control frames are 14 bytes each
        body = stream
        if active and body[:4] == b"\x00\x00\x00\x0a" and len(body) >= 14 and body[9] == rc.SELECT_REQ:
            body = body[14:]
        payload = bytearray(body)
    else:
        parser = rc.FrameParser()
        parser.feed(stream)
        for fr in parser.frames:
            if fr.stype == 0:
                payload.extend(fr.body)
                frame_bodies.append(fr.body)
        if (parser.error or parser.pending) and not state.get("reset_done"):
            sim.violation("C10.R1", f"peer read a byte stream that is not a sequence of frames: error={parser.error}, "
                          f"{parser.pending} trailing bytes", sig="C10.R1|stream-corrupt")
    for n_, ok_ in hard_errors:
        sim.probe("hard_error_during_send")
        if ok_:
            sim.violation("C10.R2", f"socket.send() raised EPIPE/ECONNRESET during a {n_}-byte send_data call, which "
                          "nevertheless reported success", sig="C10.R2|error-reported-as-success")
    ok_concat = b"".join(r[0] for r in results if r[1])
    # R2': whatever is reported as sent must at least have been handed to the socket completely and in order
    acc = bytes(accepted)
    if path == "raw":
        if active and acc[:4] == b"\x00\x00\x00\x0a" and len(acc) >= 14 and acc[9] == rc.SELECT_REQ:
            acc = acc[14:]
        ok_acc = acc.startswith(ok_concat)
        if not ok_acc:
            # the endpoint's own close sequence (Separate.req, written by the protocol thread when the peer half-closes)
            # may land between two partial writes of the scenario's raw send_data call, in pieces when writes are short:
            # two writers on one socket is the harness's doing on this path, not the transport's - judge the bytes the
            # sender thread itself handed to the socket
            ok_acc = bytes(accepted_raw).startswith(ok_concat)
        if not ok_acc:
            sim.violation("C10.R2", f"sends reported successful carry {len(ok_concat)} bytes, but the socket accepted only "
                          f"{len(acc)} payload bytes (or different ones): success was reported for bytes that were never "
                          f"written; fault={plan.get('fault_kind') if plan['reset_after'] is not None else None}",
                          sig="C10.R2|success-for-unwritten-bytes")
    if state.get("reset_done"):
        # reset batch: whatever was read must be a prefix of what the senders handed over, in order
        all_concat = b"".join(r[0] for r in results)
        body = bytes(payload)
        if path == "raw" and not all_concat.startswith(body[:len(all_concat)]) and not body.startswith(all_concat):
            sim.violation("C10.R1", "after a reset the bytes read by the peer are not a prefix of the bytes sent",
                          sig="C10.R1|not-a-prefix-after-reset")
    else:
        body = bytes(payload)
        if path == "raw":
            # trailing Separate.req (14 bytes) sent by disable()
            if len(body) >= 14 and body[-14:-10] == b"\x00\x00\x00\x0a" and body[-5] == rc.SEPARATE_REQ:
                body = body[:-14]
        if n_senders > 1:
            # several senders: the order between threads is free, each thread's own order is kept, nothing is lost,
            # duplicated or torn
            import collections
            want_c = collections.Counter(r[0] for r in results if r[1])
            got_c = collections.Counter(frame_bodies)
            if want_c != got_c:
                lost = sum((want_c - got_c).values())
                extra = sum((got_c - want_c).values())
                sim.violation("C10.R1", f"{n_senders} threads sent {sum(want_c.values())} messages successfully; the peer "
                              f"read {sum(got_c.values())} data frames, {lost} of the sent ones missing or altered, "
                              f"{extra} unexpected", sig="C10.R1|concurrent-senders-" + ("lost" if lost else "extra"))
            for t in range(n_senders):
                mine = [r[0] for r in results if r[1] and r[2] == t]
                it = iter(frame_bodies)
                if not all(any(b == x for x in it) for b in mine):
                    sim.violation("C10.R1", f"messages of sender thread {t} arrived in a different order than sent",
                                  sig="C10.R1|concurrent-senders-order")
        elif body != ok_concat:
            n_ok = len(ok_concat)
            kind = "truncated" if ok_concat.startswith(body) else "duplicated-or-extra" if body.startswith(ok_concat) \
                else "corrupted"
            sim.violation("C10.R1", f"sends reported successful carried {n_ok} bytes, the peer read {len(body)} "
                          f"({kind}); socket buffer {plan['buf']}, sizes {[n for n, _ in plan['sends']]}",
                          sig=f"C10.R1|{kind}")
        if not all(r[1] for r in results) and done:
            sim.violation("C10.R2", "a send on a healthy, draining connection reported failure", sig="C10.R2|false-failure")
    classes = sorted({("gt" if n > plan["buf"] else "le") for n, _ in plan["sends"]})
    sim.abstract = (plan["buf"], classes, len(plan["sends"]), plan["pacing"], path, plan["reset_after"] is not None,
                    plan["sched"]["policy"], active)

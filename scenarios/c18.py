"""C18 - the state-machine engine keeps one consistent current state under any transitions.

Real: secsgem.common.State / Transition / StateMachine._perform_transition / EventProducer and the three shipped
machines (ControlStateMachine, CommunicationStateMachine with its Timers on the virtual clock, ConnectionStateMachine).
Stub: nothing but the simulated threads/clock.  Oracle: sequential hierarchical-state-machine reference model
(DESIGN.md B.6); concurrent requests must equal one of the two sequential orders.
"""

from __future__ import annotations

import collections

from simkit import facades

PROP = "C18"
SHRINK = ("ops", "handlers")
LIMITS = {"max_steps": 300_000, "max_vtime": 2000.0}
BUDGET = {
    "quick": {"runs": 12000, "wall": 150, "chunk": 100, "minimise": 150},
    "thorough": {"runs": 600_000, "wall": 1500, "chunk": 300, "minimise": 300},
}
REQUIRED_PROBES = {"quick": ("nested_transition", "wrong_source", "unknown_transition", "concurrent_pair",
                             "hierarchy_depth3", "shipped_control", "shipped_communication", "shipped_connection",
                             "both_passed_check_window"),
                   "thorough": ("nested_transition", "wrong_source", "unknown_transition", "concurrent_pair",
                                "hierarchy_depth3", "shipped_control", "shipped_communication", "shipped_connection",
                                "both_passed_check_window")}
EVIDENCE = {
    "level": "exploration",
    "rule": ("seeded machine definitions (3-9 states in a parent forest of depth <= 3, 3-12 transitions between "
             "leaf states with 1-3 sources, enter handlers on leaf states that request a further transition, "
             "chains <= 4) and the three shipped machines (ControlStateMachine in all 8 initial configurations); "
             "seeded request sequences incl. unknown names; pairs of requests fired from two simulated threads "
             "with line/opcode pre-emption inside state_machine.py; a leave handler that fails while the request "
             "is performed (generated machines); non-trivial = a nested transition, a rejected request or a "
             "concurrent pair occurred; distinct = distinct (machine shape hash, request sequence, scheduler)"),
    "real": ["secsgem.common.StateMachine/State/Transition/EventProducer", "secsgem.gem.ControlStateMachine",
             "secsgem.gem.CommunicationStateMachine (real Timer threads, virtual clock)",
             "secsgem.hsms.ConnectionStateMachine"],
    "stub": ["threading/time facades only"],
    "assumptions": ["generated machines: transitions start and end at leaf states and handlers sit on leaf states (as in "
                    "the shipped machines); a handler swallows the exception of a nested request that is not allowed",
                    "a common ancestor of source and destination may fire nothing or one leave followed by one enter"],
}

SCHEDS = [
    {"policy": "sticky", "preempt": "line"},
    {"policy": "random", "p": 0.3, "preempt": "line"},
    {"policy": "random", "p": 0.5, "preempt": "line"},
    {"policy": "pct", "d": 2, "horizon": 200, "preempt": "line"},
    {"policy": "rr", "q": 1, "preempt": "line"},
    {"policy": "rr", "q": 2, "preempt": "line"},
    {"policy": "random", "p": 0.4, "preempt": "opcode"},
    {"policy": "random", "p": 0.5, "preempt": "sync"},
    {"policy": "pct", "d": 2, "horizon": 150, "preempt": "sync"},
]


# --------------------------------------------------------------------------------------------------- generation
def gen_machine(rng):
    n = rng.randrange(3, 10)
    parents = [None]
    for i in range(1, n):
        cands = [None] + [j for j in range(i) if _depth(parents, j) < 2]
        parents.append(rng.choice(cands) if rng.random() < 0.6 else None)
    leaves = [i for i in range(n) if i not in parents]
    if len(leaves) < 2:
        parents = [None] * n
        leaves = list(range(n))
    trans = []
    for t in range(rng.randrange(3, 13)):
        srcs = rng.sample(leaves, min(len(leaves), rng.choice([1, 1, 2, 3])))
        trans.append([f"t{t}", srcs, rng.choice(leaves)])
    handlers = []
    for leaf in leaves:
        if rng.random() < 0.35:
            handlers.append([leaf, rng.choice(trans)[0] if rng.random() < 0.9 else "nope"])
    initial = rng.choice(leaves)
    return {"parents": parents, "transitions": trans, "handlers": handlers, "initial": initial}


def _depth(parents, i):
    d = 0
    while parents[i] is not None:
        i = parents[i]
        d += 1
    return d


def gen_plan(rng, tier, index):
    kind = rng.choice(["generated", "generated", "generated", "control", "communication", "connection"])
    plan = {"kind": kind}
    if kind == "generated":
        m = gen_machine(rng)
        plan["machine"] = m
        plan["handlers"] = m.pop("handlers")
        names = [t[0] for t in m["transitions"]] + ["nope"]
    elif kind == "control":
        plan["initial"] = rng.choice(["EQUIPMENT_OFFLINE", "ATTEMPT_ONLINE", "HOST_OFFLINE", "ONLINE"])
        plan["sub"] = rng.choice(["LOCAL", "REMOTE"])
        names = ["switch_online", "switch_offline", "switch_online_local", "switch_online_remote", "remote_offline",
                 "remote_online", "attempt_online_fail_host_offline", "attempt_online_success", "start", "nope"]
    elif kind == "communication":
        names = ["enable", "disable", "select", "communicationreqfail", "delayexpired", "s1f14received",
                 "communicationfail", "s1f13received", "messagereceived", "nope"]
    else:
        names = ["connect", "disconnect", "select", "deselect", "timeoutT7", "nope"]
    ops = []
    for _ in range(rng.choice([2, 4, 8, 15, 30])):
        r = rng.random()
        if r < 0.08 and kind == "generated":
            # fault: a leave handler of the current state fails while the request is performed
            ops.append(["raise_leave", rng.choice(names)])
        elif r < 0.35:
            ops.append(["pair", rng.choice(names), rng.choice(names)])
        else:
            ops.append(["one", rng.choice(names)])
    plan["ops"] = ops
    sched = dict(rng.choice(SCHEDS))
    sched["seed"] = rng.getrandbits(48)
    plan["sched"] = sched
    return plan


def sample_view(plan):
    return plan


def shrink_candidates(plan):
    for i, op in enumerate(plan["ops"]):
        if op[0] == "pair":
            yield dict(plan, ops=plan["ops"][:i] + [["one", op[1]], ["one", op[2]]] + plan["ops"][i + 1:])


# --------------------------------------------------------------------------------------------------- reference model
class Model:
    def __init__(self, parents, transitions, handlers, initial, names=None):
        self.parents = parents
        self.trans = {t[0]: (list(t[1]), t[2]) for t in transitions}
        self.handlers = dict((h[0], h[1]) for h in handlers)
        self.current = initial
        self.names = names or [f"s{i}" for i in range(len(parents))]

    def ancestors(self, s):
        out = []
        while s is not None:
            out.append(s)
            s = self.parents[s]
        return out

    def clone(self):
        m = Model(self.parents, [], [], self.current, self.names)
        m.trans = self.trans
        m.handlers = self.handlers
        return m

    def fire(self, name, events, depth=0):
        """Apply a request; returns 'ok' | 'unknown' | 'wrong'; appends (kind, state/transition) to events.
        `events` entries for common ancestors are marked optional."""
        if name not in self.trans:
            return "unknown"
        srcs, dst = self.trans[name]
        if self.current not in srcs:
            return "wrong"
        old = self.current
        a_old, a_new = self.ancestors(old), self.ancestors(dst)
        for s in a_old:
            if s not in a_new:
                events.append(("leave", s))
            else:
                events.append(("opt-leave-enter", s))
        if old == dst:
            # self transition: the state itself is left and entered
            events.remove(("opt-leave-enter", old))
            events.append(("leave", old))
            events.append(("enter", old))
        self.current = dst
        for s in a_new:
            if s not in a_old:
                events.append(("enter", s))
        # handler of the (leaf) destination runs when its enter event fires
        h = self.handlers.get(dst)
        if h is not None and depth < 4:
            self.fire(h, events, depth + 1)
        events.append(("called", name))
        return "ok"


def events_match(got, want):
    """Multiset comparison; ('opt-leave-enter', s) in want matches nothing or exactly one leave(s) and one enter(s)."""
    g = collections.Counter(got)
    for kind, x in want:
        if kind == "opt-leave-enter":
            continue
        g[(kind, x)] -= 1
    for kind, x in want:
        if kind == "opt-leave-enter":
            if g.get(("leave", x), 0) >= 1 and g.get(("enter", x), 0) >= 1:
                g[("leave", x)] -= 1
                g[("enter", x)] -= 1
    return all(v == 0 for v in g.values())


# --------------------------------------------------------------------------------------------------- real machines
def build_generated(machine, handlers, log, depth_guard):
    import enum

    import secsgem.common

    n = len(machine["parents"])
    en = enum.Enum("GenState", {f"S{i}": i for i in range(n)})
    states = [None] * n
    order = sorted(range(n), key=lambda i: _depth(machine["parents"], i))
    for i in order:
        p = machine["parents"][i]
        states[i] = secsgem.common.State(en[f"S{i}"], f"s{i}", parent=None if p is None else states[p],
                                         initial=False)

    class Gen(secsgem.common.StateMachine):
        def __init__(self):
            super().__init__()
            self._current_state = states[machine["initial"]]
            self._transitions = [secsgem.common.Transition(t[0], [states[s] for s in t[1]], states[t[2]])
                                 for t in machine["transitions"]]

        def fire(self, name):
            self._perform_transition(name)

    sm = Gen()
    # the initial state and its ancestors are active
    s = states[machine["initial"]]
    while s is not None:
        s._active = True
        s = s.parent
    for i, st in enumerate(states):
        st.events.enter.register(lambda _d, i=i: log.append(("enter", i)))
        st.events.leave.register(lambda _d, i=i: log.append(("leave", i)))
    for t in sm._transitions:
        t.events.called.register(lambda _d, name=t.name: log.append(("called", name)))
    for leaf, name in handlers:
        def handler(_d, name=name):
            me = facades.K().current.tid   # nesting depth is counted per requesting thread
            if depth_guard.get(me, 0) >= 4:
                return
            depth_guard[me] = depth_guard.get(me, 0) + 1
            try:
                sm.fire(name)
            except Exception as exc:  # noqa: BLE001 - a nested request that is not allowed changes nothing
                log.append(("nested-raised", type(exc).__name__))
            finally:
                depth_guard[me] -= 1
        states[leaf].events.enter.register(handler)
    return sm, states


def introspect(sm, extra_handlers=()):
    """Model tables from a shipped machine's own declaration."""
    states = []
    for t in sm._transitions:
        for s in list(t.sources) + [t.destination]:
            x = s
            while x is not None:
                if x not in states:
                    states.append(x)
                x = x.parent
    if sm._current_state not in states:
        states.append(sm._current_state)
    idx = {id(s): i for i, s in enumerate(states)}
    parents = [None if s.parent is None else idx[id(s.parent)] for s in states]
    trans = [[t.name, [idx[id(s)] for s in t.sources], idx[id(t.destination)]] for t in sm._transitions]
    return states, idx, parents, trans


def run(sim, plan):
    import secsgem.common

    k = sim.k
    kind = plan["kind"]
    log = []
    depth_guard = {}
    timers_note = {}
    if kind == "generated":
        machine = plan["machine"]
        handlers = [h for h in plan["handlers"]]
        sm, states = build_generated(machine, handlers, log, depth_guard)
        model = Model(machine["parents"], machine["transitions"], handlers, machine["initial"])
        fire = sm.fire
        if max(_depth(machine["parents"], i) for i in range(len(states))) >= 2:
            sim.probe("hierarchy_depth3")
    else:
        if kind == "control":
            from secsgem.gem.control_state_machine import ControlStateMachine

            sim.probe("shipped_control")
            sm = ControlStateMachine(plan["initial"], plan["sub"])
            init, sub = plan["initial"], plan["sub"]
            hmap = {"CONTROL": "initial_online" if init == "ONLINE" else "initial_offline",
                    "OFFLINE": {"EQUIPMENT_OFFLINE": "initial_equipment_offline", "ATTEMPT_ONLINE": "initial_attempt_online",
                                "HOST_OFFLINE": "initial_host_offline"}.get(init),
                    "ONLINE": "initial_online_remote" if sub == "REMOTE" else "initial_online_local"}
        elif kind == "communication":
            import secsgem.hsms
            from secsgem.gem.communication_state_machine import CommunicationStateMachine

            sim.probe("shipped_communication")
            settings = secsgem.hsms.HsmsSettings(t3=5, establish_communication_timeout=3)
            sm = CommunicationStateMachine(settings)
            hmap = {}
        else:
            from secsgem.hsms.connection_state_machine import ConnectionStateMachine

            sim.probe("shipped_connection")
            sm = ConnectionStateMachine()
            hmap = {}
        states, idx, parents, trans = introspect(sm)
        handlers = [[i, hmap[s.name]] for i, s in enumerate(states) if hmap.get(s.name)]
        model = Model(parents, trans, handlers, idx[id(sm._current_state)], [s.name for s in states])
        for i, st in enumerate(states):
            st.events.enter.register(lambda _d, i=i: log.append(("enter", i)))
            st.events.leave.register(lambda _d, i=i: log.append(("leave", i)))
        for t in sm._transitions:
            t.events.called.register(lambda _d, name=t.name: log.append(("called", name)))

        def fire(name):
            sm._perform_transition(name)

    def real_active():
        return sorted(i for i, s in enumerate(states) if s.active)

    def real_current():
        for i, s in enumerate(states):
            if s is sm._current_state:
                return i
        return -1

    def state_name(i):
        return model.names[i] if 0 <= i < len(model.names) else str(i)

    def check_consistency(where, hist):
        cur = real_current()
        if cur != model.current:
            sim.violation("C18.R2", f"{where}: current state {state_name(cur)}, model {state_name(model.current)}; "
                          f"history {hist[-6:]}", sig="C18.R2|wrong-current")
        want = sorted(model.ancestors(model.current))
        got = real_active()
        if got != want:
            stale = [state_name(i) for i in got if i not in want]
            missing = [state_name(i) for i in want if i not in got]
            sim.violation("C18.R3", f"{where}: states reporting active {[state_name(i) for i in got]}, expected "
                          f"{[state_name(i) for i in want]} (current {state_name(cur)}); stale {stale}, missing {missing}; "
                          f"history {hist[-6:]}",
                          sig="C18.R3|" + ("stale-active" if stale else "missing-active") +
                          ("|after-nested" if nested_seen["n"] else "|plain"))

    nested_seen = {"n": 0}
    hist = []
    nontrivial = False

    def quiesce_timers():
        """Shipped communication machine: keep its timers from firing during the history (not part of this property)."""

    for op in plan["ops"]:
        hist.append(op)
        if op[0] == "raise_leave":
            name = op[1]
            m2 = model.clone()
            if m2.fire(name, []) != "ok":
                continue
            sim.probe("leave_handler_raises")
            nontrivial = True
            before_cur = real_current()
            boom = {"armed": True}

            def failing(_d, boom=boom):
                if boom["armed"]:
                    boom["armed"] = False
                    raise RuntimeError("leave handler failed")

            states[before_cur].events.leave.register(failing)
            del log[:]
            try:
                fire(name)
                raised = None
            except RuntimeError:
                raised = "handler"
            except Exception as exc:  # noqa: BLE001
                raised = type(exc).__name__
            boom["armed"] = False
            cur = real_current()
            if raised == "handler" and cur != before_cur and cur != m2.current:
                sim.violation("C18.R2", f"request '{name}' from {state_name(before_cur)} was aborted by a failing leave "
                              f"handler and ended in {state_name(cur)}", sig="C18.R2|aborted-request-third-state")
            # whatever the engine does with the failed request, it must keep one consistent current state
            model.current = cur
            check_consistency(f"after '{name}' with a failing leave handler", hist)
            continue
        if op[0] == "one":
            name = op[1]
            del log[:]
            before_cur, before_act = real_current(), real_active()
            want_events = []
            m2 = model.clone()
            outcome = m2.fire(name, want_events)
            raised = None
            try:
                fire(name)
            except secsgem.common.state_machine.UnknownTransitionError:
                raised = "unknown"
            except secsgem.common.state_machine.WrongSourceStateError:
                raised = "wrong"
            got_events = [e for e in log if e[0] != "nested-raised"]
            if any(e[0] == "called" for e in got_events[:-1]) or len([e for e in want_events if e[0] == "called"]) > 1:
                nested_seen["n"] += 1
                sim.probe("nested_transition")
                nontrivial = True
            if outcome != "ok":
                sim.probe("wrong_source" if outcome == "wrong" else "unknown_transition")
                nontrivial = True
                if raised != outcome:
                    sim.violation("C18.R1", f"request '{name}' in {state_name(before_cur)} must raise "
                                  f"{'UnknownTransitionError' if outcome == 'unknown' else 'WrongSourceStateError'}, "
                                  f"observed {raised}", sig=f"C18.R1|no-raise-{outcome}")
                if real_current() != before_cur or real_active() != before_act or got_events:
                    sim.violation("C18.R1", f"rejected request '{name}' changed something: current "
                                  f"{state_name(before_cur)}->{state_name(real_current())}, events {got_events}",
                                  sig="C18.R1|rejected-changed-state")
            else:
                if raised is not None:
                    sim.violation("C18.R2", f"allowed request '{name}' in {state_name(before_cur)} raised {raised}",
                                  sig="C18.R2|allowed-raised")
                model.current = m2.current
                if not events_match(got_events, want_events):
                    sim.violation("C18.R4", f"request '{name}' from {state_name(before_cur)}: events fired "
                                  f"{[(a, state_name(b) if isinstance(b, int) else b) for a, b in got_events]}, expected "
                                  f"{[(a, state_name(b) if isinstance(b, int) else b) for a, b in want_events]}",
                                  sig="C18.R4|events")
            check_consistency(f"after '{name}'", hist)
        else:
            _, n1, n2 = op
            sim.probe("concurrent_pair")
            nontrivial = True
            del log[:]
            before = (real_current(), real_active())
            results = {}

            def worker(tag, name):
                try:
                    fire(name)
                    results[tag] = None
                except secsgem.common.state_machine.UnknownTransitionError:
                    results[tag] = "unknown"
                except secsgem.common.state_machine.WrongSourceStateError:
                    results[tag] = "wrong"

            t1 = sim.spawn(lambda: worker("a", n1), "trigger_a", role="app")
            t2 = sim.spawn(lambda: worker("b", n2), "trigger_b", role="app")
            if not sim.wait_until(lambda: "a" in results and "b" in results, 30):
                sim.violation("C18.R5", f"concurrent requests {n1}/{n2} did not return", sig="C18.R5|stuck")
            got_events = [e for e in log if e[0] != "nested-raised"]
            # the two sequential orders
            cands = []
            for first, second, ta, tb in ((n1, n2, "a", "b"), (n2, n1, "b", "a")):
                m2 = model.clone()
                ev = []
                o1 = m2.fire(first, ev)
                o2 = m2.fire(second, ev)
                cands.append((m2.current, {ta: None if o1 == "ok" else o1, tb: None if o2 == "ok" else o2}, ev))
            ok = None
            for cur, res, ev in cands:
                if real_current() == cur and results == res and events_match(got_events, ev) and \
                        real_active() == sorted(model.ancestors(cur)):
                    ok = cur
                    break
            # was the window open: both requests were individually allowed in the state before
            srcs1 = model.trans.get(n1, ([], None))[0]
            srcs2 = model.trans.get(n2, ([], None))[0]
            if before[0] in srcs1 and before[0] in srcs2:
                sim.probe("both_passed_check_window")
            if ok is None:
                sim.violation("C18.R5", f"concurrent requests '{n1}' and '{n2}' from {state_name(before[0])}: result "
                              f"current={state_name(real_current())} active={[state_name(i) for i in real_active()]} "
                              f"raised={results} events={[(a, state_name(b) if isinstance(b, int) else b) for a, b in got_events]} "
                              f"equals neither sequential order "
                              f"{[(state_name(c), r) for c, r, _e in cands]}",
                              sig="C18.R5|not-linearizable" + ("|after-nested" if nested_seen["n"] else ""))
            model.current = ok
            check_consistency(f"after pair '{n1}'/'{n2}'", hist)
    sim.nontrivial = nontrivial
    shape = (kind, plan.get("initial"), plan.get("sub"),
             tuple(plan["machine"]["parents"]) if kind == "generated" else None, len(plan.get("handlers", [])))
    sim.abstract = (shape, [tuple(o) for o in plan["ops"]][:10], plan["sched"]["policy"])

"""C05 - the HSMS session follows the E37 connect/select state model for every history.

Real: HsmsProtocol control-message handling, ConnectionStateMachine, StateMachine, select thread, dispatcher,
real Tcp*Connection.  Stub: SimSocket, scripted peer.  Reference model: E37 session table (DESIGN.md B.1).
"""

from __future__ import annotations

from simkit import hsmsenv, refcodec as rc

PROP = "C05"
SHRINK = ("ops",)
LIMITS = {"max_steps": 500_000, "max_vtime": 900.0}
BUDGET = {
    "quick": {"runs": 6000, "wall": 150, "chunk": 40, "minimise": 120},
    "thorough": {"runs": 250_000, "wall": 1500, "chunk": 100, "minimise": 250},
}
REQUIRED_PROBES = {"quick": ("early_select", "data_not_selected", "data_selected", "separate_req", "deselect_req",
                             "unsolicited_select_rsp", "reconnect", "burst", "close_inside_frame",
                             "system_ids_restarted"),
                   "thorough": ("early_select", "data_not_selected", "data_selected", "separate_req", "deselect_req",
                                "unsolicited_select_rsp", "reconnect", "burst", "reply_in_not_selected",
                                "close_inside_frame", "system_ids_restarted")}
EVIDENCE = {
    "level": "exploration",
    "rule": ("seeded histories over {connect (also with a Select.req already in flight), peer close, local "
             "disable/enable, Select/Deselect/Linktest/Separate/Reject control frames, data frames with/without W "
             "and with fresh or transaction-matching system bytes, local select/deselect/linktest/data requests}, "
             "issued one at a time or in bursts (frames 0-40 ms apart), active and passive, connections that end "
             "inside a frame, peers that restart their system bytes on every connection, threads descheduled just "
             "before a synchronisation call; after every operation a quiet healthy link must have every request "
             "answered and every deliverable message delivered within 2 virtual s; non-trivial = history contains "
             "at least one state-changing event after the first select; distinct = distinct (mode, op-kind "
             "sequence, scheduler) tuples"),
    "real": ["secsgem.hsms.HsmsProtocol", "secsgem.hsms.ConnectionStateMachine", "secsgem.common.StateMachine",
             "secsgem.common.ProtocolDispatcher", "secsgem.common.Tcp*Connection"],
    "stub": ["socket/select (SimSocket)", "threading/queue/time facades", "peer (reference E37 codec)"],
    "assumptions": ["E37 reading (DESIGN.md B.1): Separate.req moves SELECTED to NOT SELECTED without a reply; a "
                    "Select.rsp/Deselect.rsp that answers no open transaction, or carries a non-zero status, changes "
                    "nothing (status 1 'already active' accepts both)",
                    "T7/T8 and the status bytes of the endpoint's own responses are outside the statement and unchecked",
                    "op gaps stay below T6 and the linktest period so timer expiry is not part of the history"],
}

SCHEDS = [
    {"policy": "sticky", "preempt": "line"},
    {"policy": "random", "p": 0.05, "preempt": "line"},
    {"policy": "random", "p": 0.3, "preempt": "line"},
    {"policy": "pct", "d": 1, "horizon": 800, "preempt": "line"},
    {"policy": "pct", "d": 3, "horizon": 2500, "preempt": "line"},
    {"policy": "pct", "d": 2, "horizon": 300, "preempt": "line"},
    {"policy": "rr", "q": 3, "preempt": "line"},
    {"policy": "random", "p": 0.2, "preempt": "sync"},
    {"policy": "random", "p": 0.5, "preempt": "sync"},
    {"policy": "pct", "d": 2, "horizon": 150, "preempt": "sync"},
]
T6 = 2.0
OPS = ["select_req", "select_req", "deselect_req", "linktest_req", "linktest_rsp", "separate_req", "reject_req",
       "select_rsp_unsol", "select_rsp_unsol_bad", "deselect_rsp_unsol", "data", "data", "data_w", "data_w",
       "api_linktest", "api_select", "api_deselect", "api_request", "reply_match", "peer_close", "local_cycle"]


def gen_plan(rng, tier, index):
    n = rng.choice([3, 5, 8, 12, 20, 30, 45])
    ops = []
    for _ in range(n):
        op = rng.choice(OPS)
        if rng.random() < 0.15:
            burst = [rng.choice([o for o in OPS if o not in ("peer_close", "local_cycle", "api_select", "api_deselect",
                                                             "api_linktest", "api_request", "reply_match")])
                     for _ in range(rng.choice([2, 3, 4, 6]))]
            ops.append(["burst", burst])
        else:
            ops.append([op, rng.choice([0, 1, 2])])
    plan = {
        "active": rng.random() < 0.4, "ops": ops,
        "early_select": rng.random() < 0.5, "early_steps": rng.choice([0, 0, 0, 0, 0, 1, 2, 5, 10, 20, 40, 80]),
        "select_answer": rng.choice(["ok", "ok", "ok", "status1", "status2", "none"]),
        "latency": rng.choice([0.0, 0.0005, 0.01]),
        # the peer numbers its transactions from the same start value on every connection (system bytes only have to
        # be unique among open transactions)
        "restart_ids": rng.random() < 0.5,
        # frames of a burst are sent this far apart (0: back to back)
        "stagger": rng.choice([0, 0, 0.001, 0.01, 0.04]),
    }
    sched = dict(rng.choice(SCHEDS))
    sched["seed"] = rng.getrandbits(48)
    if rng.random() < 0.4:
        # fault: a thread is descheduled for a moment just before one of its synchronisation calls
        sched["sync_stall"] = {"n": rng.choice([1, 2, 4]), "horizon": rng.choice([100, 400, 1500, 6000]),
                               "durs": [0.002, 0.03]}
    plan["sched"] = sched
    return plan


def sample_view(plan):
    return plan


def shrink_candidates(plan):
    for i, op in enumerate(plan["ops"]):
        if op[0] == "burst" and len(op[1]) > 1:
            for j in range(len(op[1])):
                yield dict(plan, ops=plan["ops"][:i] + [["burst", op[1][:j] + op[1][j + 1:]]] + plan["ops"][i + 1:])
    if plan.get("early_steps"):
        yield dict(plan, early_steps=0)
    if plan.get("latency"):
        yield dict(plan, latency=0.0)


class Model:
    """Set-valued E37 session model as seen from outside the endpoint."""

    def __init__(self):
        self.states = {"NC"}

    def set(self, *states):
        self.states = set(states)

    def apply(self, fn):
        out = set()
        for s in self.states:
            r = fn(s)
            out |= set(r) if isinstance(r, (set, tuple, list)) else {r}
        self.states = out


NAMES = {"NOT_CONNECTED": "NC", "CONNECTED_NOT_SELECTED": "NS", "CONNECTED_SELECTED": "S", "CONNECTED": "NS"}


def run(sim, plan):
    import secsgem.secs.functions as sf

    k = sim.k
    active = plan["active"]
    sim.make_net(latency=plan["latency"])
    ep = hsmsenv.Endpoint(sim, active, t3=3, t5=1, t6=T6)
    proto = ep.proto
    proto._linktest_timeout = 1000
    model = Model()
    sysgen = {"n": 0x100}
    conn = {"peer": None, "n": 0}
    op_kinds = []
    # wire bookkeeping per connection
    expect_resp = []     # (peer, request stype, system, sent_at, window_open: bool)
    expect_reject = []   # (peer, system)
    expect_deliver = []  # (system, stream, function, w, body)
    forbid_deliver = []  # systems of data frames sent while not selected
    api_calls = []
    answered = set()

    def next_sys():
        sysgen["n"] += 1
        return sysgen["n"]

    def configure(peer):
        peer.auto_linktest = True

    listener = hsmsenv.PeerListener(sim, configure=configure) if active else None

    def check_state(where):
        got = NAMES[ep.state]
        if got not in model.states:
            sim.violation("C05.R1", f"after {where}: endpoint reports {ep.state}, E37 model allows {sorted(model.states)}; "
                          f"history so far: {op_kinds[-8:]}",
                          sig=f"C05.R1|{where.split(':')[0]}|got-{got}-want-{'/'.join(sorted(model.states))}")

    def do_connect(first):
        """Bring up a TCP connection; with early_select the peer's Select.req is in flight during the accept."""
        early = plan["early_select"] and not active
        if active:
            n0 = len(listener.peers)
            if not sim.wait_until(lambda: len(listener.peers) > n0, 8):
                sim.inconclusive("active endpoint did not connect")
            peer = listener.peers[-1]
        else:
            peer = None
            end = sim.now + 6
            while peer is None and sim.now < end:
                s = hsmsenv.SimSocket(_net=k.net)
                try:
                    s.connect(hsmsenv.ADDR)
                    peer = hsmsenv.HsmsPeer(sim, s, f"peer{conn['n'] + 1}")
                except ConnectionRefusedError:
                    sim.advance(0.2)
            if peer is None:
                sim.inconclusive("passive endpoint refused the connection")
            configure(peer)
        conn["n"] += 1
        conn["peer"] = peer
        if plan.get("restart_ids"):
            if conn["n"] > 1 and sysgen["n"] > 0x100:
                sim.probe("system_ids_restarted")
            sysgen["n"] = 0x100
        model.set("NS")
        if early:
            # Select.req is already on the wire while the accepting thread is still inside on_connected
            sim.probe("early_select")
            system = next_sys()
            if plan["early_steps"]:
                sim.run_others(plan["early_steps"], max_dt=0.2)
            peer.send(rc.control(rc.SELECT_REQ, system))
            expect_resp.append((peer, rc.SELECT_REQ, system, sim.now, True))
            model.set("S")
            op_kinds.append("connect+select_req")
        else:
            op_kinds.append("connect")
        sim.wait_until(lambda: ep.connected_n > ep.disconnected_n, 3)
        sim.advance(0.3)
        if active:
            # the endpoint's own Select.req, answered per plan
            reqs = peer.frames_of(rc.SELECT_REQ)
            if not reqs:
                sim.violation("C05.R2", "active endpoint sent no Select.req after connecting", sig="C05.R2|no-select-req")
            ans = plan["select_answer"] if first else "ok"
            if ans == "ok":
                peer.send(rc.control(rc.SELECT_RSP, reqs[0].system))
                model.set("S")
            elif ans == "status1":
                peer.send(rc.control(rc.SELECT_RSP, reqs[0].system, b3=1))
                model.set("S", "NS")
            elif ans == "status2":
                peer.send(rc.control(rc.SELECT_RSP, reqs[0].system, b3=2))
                model.set("NS")
            else:
                sim.advance(T6 + 0.3)
            sim.advance(0.3)
        check_state("connect")
        return peer

    def open_ctl(peer, stype):
        """System ids of the endpoint's own control requests of that type still open (sent < T6 ago, unanswered)."""
        out = []
        for fr in peer.frames:
            if fr.stype == stype and sim.now - fr.t < T6 - 0.25 and id(fr) not in answered:
                out.append(fr)
        return out

    def send_op(peer, op, arg, in_burst=False):
        """Send one peer->endpoint frame and update model/expectations. Returns the kind string."""
        sel = model.states
        if op == "select_req":
            system = next_sys()
            peer.send(rc.control(rc.SELECT_REQ, system))
            expect_resp.append((peer, rc.SELECT_REQ, system, sim.now, True))
            model.set("S")
        elif op == "deselect_req":
            system = next_sys()
            peer.send(rc.control(rc.DESELECT_REQ, system))
            expect_resp.append((peer, rc.DESELECT_REQ, system, sim.now, True))
            sim.probe("deselect_req")
            model.set("NS")
        elif op == "linktest_req":
            system = next_sys()
            peer.send(rc.control(rc.LINKTEST_REQ, system))
            expect_resp.append((peer, rc.LINKTEST_REQ, system, sim.now, True))
        elif op == "linktest_rsp":
            peer.send(rc.control(rc.LINKTEST_RSP, next_sys()))
        elif op == "separate_req":
            peer.send(rc.control(rc.SEPARATE_REQ, next_sys()))
            sim.probe("separate_req")
            model.set("NS")
        elif op == "reject_req":
            peer.send(rc.control(rc.REJECT_REQ, next_sys(), b2=arg, b3=1 + arg))
        elif op == "select_rsp_unsol":
            # answers no open Select transaction: must not change the state
            peer.send(rc.control(rc.SELECT_RSP, 0xDEAD0000 + next_sys(), b3=0))
            sim.probe("unsolicited_select_rsp")
        elif op == "select_rsp_unsol_bad":
            peer.send(rc.control(rc.SELECT_RSP, 0xDEAD0000 + next_sys(), b3=2 + arg))
            sim.probe("unsolicited_select_rsp")
        elif op == "deselect_rsp_unsol":
            peer.send(rc.control(rc.DESELECT_RSP, 0xDEAD0000 + next_sys(), b3=0))
        elif op in ("data", "data_w"):
            system = 0x40000000 + next_sys()
            tag = rc.a(f"m{conn['n']}.{system & 0xFFFF}")
            shape = (system + arg) % 6
            st, fn, body = 10, 3, rc.enc(rc.ls(rc.b(arg), tag))
            if shape == 2:
                # well-formed E5 item that does not fit the catalogued structure of its function (a list longer than
                # declared): framing, selection test and delivery do not depend on the body
                st, fn, body = (6, 5, rc.enc(rc.ls(rc.u4(1), rc.u4(2), tag))) if op == "data_w" else \
                    (1, 14, rc.enc(rc.ls(rc.b(0), rc.ls(), tag)))
                sim.probe("data_body_not_catalogue_shaped")
            elif shape == 3:
                st, fn, body = 99, 7, rc.enc(tag)          # function that is not catalogued
                sim.probe("data_uncatalogued")
            elif shape == 4:
                st, fn, body = 1, (1 if op == "data_w" else 2), rc.enc(rc.ls(tag, tag, tag))
            fr = rc.data(st, fn, op == "data_w", system, body)
            peer.send(fr)
            if sel == {"S"}:
                expect_deliver.append((system, st, fn, op == "data_w", body))
                sim.probe("data_selected")
            elif sel == {"NS"}:
                expect_reject.append((peer, system))
                forbid_deliver.append((system, body))
                sim.probe("data_not_selected")
            # ambiguous model state: nothing is asserted for this frame
        return op

    def check_quiescent(where):
        """Bounded liveness: on a quiet, healthy link every request sent so far has its answer and every deliverable
        data message is delivered - an answer that only appears when later traffic arrives is none if nothing follows."""
        peer = conn["peer"]

        def pending():
            out = []
            for (p, stype, system, t, healthy) in expect_resp:
                if p is peer and healthy and p.open and not any(
                        f.system == system and f.stype in (stype + 1, rc.REJECT_REQ) for f in p.frames):
                    out.append((rc.STYPE_NAMES[stype], system))
            return out

        def undelivered():
            have = {(r[1], r[5]) for r in ep.received}
            return [w for w in expect_deliver if (w[0], w[4]) not in have]

        if not peer.open:
            return
        sim.wait_until(lambda: not pending() and not undelivered(), 2.0)
        if pending():
            name, system = pending()[0]
            sim.violation("C05.R2", f"after {where}: {name} #{system:#x} is still unanswered although the link has been "
                          f"quiet for 2 virtual s (history {op_kinds[-6:]})", sig=f"C05.R2|{name}|stalled")
        if undelivered():
            sim.violation("C05.R4", f"after {where}: data message #{undelivered()[0][0]:#x} sent while SELECTED is still "
                          "undelivered although the link has been quiet for 2 virtual s", sig="C05.R4|stalled")

    # ------------------------------------------------------------------------------------------------ history
    proto.enable()
    peer = do_connect(True)
    history_after_select = 0
    for op, arg in plan["ops"]:
        peer = conn["peer"]
        if op == "burst":
            sim.probe("burst")
            kinds = []
            for sub in arg:
                if kinds and plan.get("stagger"):
                    sim.advance(plan["stagger"])
                kinds.append(send_op(peer, sub, 1, in_burst=True))
            op_kinds.append("burst(" + ",".join(kinds) + ")")
            sim.focus(2)
            sim.advance(0.4)
            check_quiescent("burst")
            check_state("burst")
            history_after_select += 1
            continue
        op_kinds.append(op)
        if op in ("select_req", "deselect_req", "linktest_req", "linktest_rsp", "separate_req", "reject_req",
                  "select_rsp_unsol", "select_rsp_unsol_bad", "deselect_rsp_unsol", "data", "data_w"):
            send_op(peer, op, arg)
            sim.advance(0.3)
            check_quiescent(op)
            check_state(op)
            history_after_select += 1
        elif op in ("api_linktest", "api_select", "api_deselect"):
            fn = {"api_linktest": proto.send_linktest_req, "api_select": proto.send_select_req,
                  "api_deselect": proto.send_deselect_req}[op]
            stype = {"api_linktest": rc.LINKTEST_REQ, "api_select": rc.SELECT_REQ, "api_deselect": rc.DESELECT_REQ}[op]
            n0 = len(peer.frames_of(stype))
            peer.auto_linktest = False
            call = ep.call_async(f"{op}{len(api_calls)}", fn)
            api_calls.append(call)
            sim.wait_until(lambda: len(peer.frames_of(stype)) > n0, 1.0)
            new = peer.frames_of(stype)[n0:]
            if not new:
                peer.auto_linktest = True
                sim.advance(0.2)
                continue
            req = new[0]
            answer = ["ok", "bad", "none"][arg]
            if answer == "ok":
                peer.send(rc.control(stype + 1, req.system, b3=0))
                if stype == rc.SELECT_REQ:
                    model.apply(lambda s: "S" if s in ("NS", "S") else s)
                elif stype == rc.DESELECT_REQ:
                    model.apply(lambda s: "NS" if s in ("NS", "S") else s)
            elif answer == "bad":
                peer.send(rc.control(stype + 1, req.system, b3=2))  # refused: nothing changes
            else:
                pass  # never answered: T6 expires, nothing changes
            if not sim.wait_until(lambda: call["done"], T6 + 1.5):
                sim.violation("C05.R2", f"{op} did not return within T6", sig=f"C05.R2|{op}-stuck")
            peer.auto_linktest = True
            sim.advance(0.2)
            check_state(op + ":" + answer)
            history_after_select += 1
        elif op == "api_request":
            if model.states != {"S"}:
                continue
            n0 = len([f for f in peer.frames if f.stype == 0 and f.w])
            call = ep.call_async(f"req{len(api_calls)}", lambda: proto.send_and_waitfor_response(sf.SecsS01F01()))
            api_calls.append(call)
            sim.wait_until(lambda: len([f for f in peer.frames if f.stype == 0 and f.w]) > n0, 1.0)
        elif op == "reply_match":
            # a data message whose system bytes match an open data transaction of the endpoint
            pending = [f for f in peer.frames if f.stype == 0 and f.w and (f.stream, f.function) == (1, 1)
                       and id(f) not in answered and sim.now - f.t < 2.5]
            if not pending:
                continue
            req = pending[0]
            answered.add(id(req))
            caller = [c for c in api_calls if c.get("result") is None and not c["done"]]
            fr = rc.data(1, 2, False, req.system, rc.enc(rc.ls()))
            peer.send(fr)
            if model.states == {"S"}:
                sim.advance(0.3)
                got = [c for c in api_calls if c["done"] and c["result"] is not None
                       and getattr(c["result"], "header", None) is not None
                       and c["result"].header.system == req.system]
                if not got:
                    sim.violation("C05.R4", "reply with matching system bytes in SELECTED was not handed to the waiting "
                                  "caller", sig="C05.R4|reply-not-routed")
            elif model.states == {"NS"}:
                sim.probe("reply_in_not_selected")
                expect_reject.append((peer, req.system))
                sim.advance(0.3)
                got = [c for c in api_calls if c["done"] and c["result"] is not None
                       and getattr(c["result"], "header", None) is not None
                       and c["result"].header.system == req.system
                       and c["result"].header.s_type.value == 0]
                if got:
                    sim.violation("C05.R3", "a data message received while NOT SELECTED was delivered to a waiting "
                                  "caller because its system bytes matched an open transaction",
                                  sig="C05.R3|delivered-to-waiter-while-not-selected")
            history_after_select += 1
        elif op == "peer_close":
            _close_windows(expect_resp, peer)
            if arg:
                # the connection ends inside a frame (arg 1: orderly close, arg 2: reset)
                raw = rc.data(10, 3, False, 0x7E000000 + conn["n"], rc.enc(rc.a("never complete" * 3))).encode()
                cut = [1, 3, 4, 5, 13, 14, 20, len(raw) - 1][(len(op_kinds) + conn["n"]) % 8]
                peer.send_bytes(raw[:cut])
                sim.advance(0.1)
                sim.probe("close_inside_frame")
            if arg == 2:
                peer.reset()
            else:
                peer.close()
            sim.wait_until(lambda: ep.state == "NOT_CONNECTED", 8)
            model.set("NC")
            check_state("peer_close")
            sim.probe("reconnect")
            peer = do_connect(False)
            history_after_select += 1
        elif op == "local_cycle":
            _close_windows(expect_resp, peer)
            dis = ep.call_async(f"disable{conn['n']}", proto.disable)
            if not sim.wait_until(lambda: dis["done"], 30):
                sim.inconclusive("disable() did not return (C09's subject)")
            model.set("NC")
            sim.advance(0.2)
            check_state("local_disable")
            ep.call_async(f"enable{conn['n']}", proto.enable)
            sim.probe("reconnect")
            peer = do_connect(False)
            history_after_select += 1
    sim.advance(0.5)
    sim.nontrivial = history_after_select > 0

    # ------------------------------------------------------------------------------------------------ wire oracles
    # R2: every Select/Deselect/Linktest request answered exactly once with the matching type and system bytes
    for (p, stype, system, t, healthy) in expect_resp:
        rsp = [f for f in p.frames if f.stype == stype + 1 and f.system == system]
        rej = [f for f in p.frames if f.stype == rc.REJECT_REQ and f.system == system]
        total = len(rsp) + len(rej)
        name = rc.STYPE_NAMES[stype]
        if total > 1:
            sim.violation("C05.R2", f"{name} #{system:#x} answered {len(rsp)} times plus {len(rej)} rejects",
                          sig=f"C05.R2|{name}|answered-twice")
        if healthy and p.open and total == 0:
            sim.violation("C05.R2", f"{name} #{system:#x} sent on a healthy link was never answered (history "
                          f"{op_kinds[-6:]})", sig=f"C05.R2|{name}|unanswered")
        if healthy and rej and not rsp:
            sim.violation("C05.R2", f"{name} #{system:#x} was rejected although the endpoint was not closing",
                          sig=f"C05.R2|{name}|rejected")
    # R3: data while NOT SELECTED: exactly one Reject.req (reason 4) with its system bytes, never delivered
    delivered = [(r[1], r[2], r[3], r[4], r[5]) for r in ep.received]
    delivered_keys = [(d[0], d[4]) for d in delivered]
    for (p, system) in expect_reject:
        rej = [f for f in p.frames if f.stype == rc.REJECT_REQ and f.system == system]
        if p.open and len(rej) != 1:
            sim.violation("C05.R3", f"data message #{system:#x} received while NOT SELECTED got {len(rej)} Reject.req",
                          sig=f"C05.R3|rejects-{min(len(rej), 2)}")
        if rej and rej[0].function != 4:
            sim.violation("C05.R3", f"Reject.req for #{system:#x} carries reason {rej[0].function}, expected 4 "
                          "(entity not selected)", sig="C05.R3|reject-reason")
    for (system, body) in forbid_deliver:
        if (system, body) in delivered_keys:
            sim.violation("C05.R3", f"data message #{system:#x} received while NOT SELECTED was delivered to the "
                          "application", sig="C05.R3|delivered-while-not-selected")
    # R4: data while SELECTED delivered exactly once, in order
    want = [d for d in expect_deliver]
    got = [d for d in delivered if (d[0], d[4]) in {(w[0], w[4]) for w in want}]
    if got != want:
        missing = [w[0] for w in want if w not in got]
        sim.violation("C05.R4", f"data messages sent while SELECTED: {len(want)}, delivered {len(got)}; missing "
                      f"{[hex(m) for m in missing][:5]}", sig="C05.R4|" + ("lost" if missing else "duplicated-or-reordered"))
    extra = [d for d in delivered if (d[0], d[4]) not in {(w[0], w[4]) for w in want}
             and (d[0], d[4]) not in forbid_deliver]
    if extra:
        sim.violation("C05.R4", f"messages delivered that were never sent as deliverable: {extra[:3]}",
                      sig="C05.R4|unexpected-delivery")
    sim.abstract = (active, plan["early_select"], op_kinds[:12], plan["sched"]["policy"])


def _close_windows(expect_resp, peer):
    """Requests sent shortly before a link loss may legitimately stay unanswered."""
    for i, (p, stype, system, t, healthy) in enumerate(expect_resp):
        if p is peer and healthy and peer.sim.now - t < 0.25:
            expect_resp[i] = (p, stype, system, t, False)

"""C09 - no peer behaviour wedges the endpoint: link loss ends in a clean, reusable state.

Real: TcpServerConnection / TcpClientConnection / TcpConnection, HsmsProtocol, ProtocolDispatcher, ByteQueue,
BlockSendInfo, ConnectionStateMachine.  Stub: SimSocket/select, raw scripted peer.
"""

from __future__ import annotations

from simkit import hsmsenv, refcodec as rc

PROP = "C09"
SHRINK = ("segments",)
LIMITS = {"max_steps": 400_000, "max_vtime": 900.0}
BUDGET = {
    "quick": {"runs": 7200, "wall": 150, "chunk": 40, "minimise": 80},
    "thorough": {"runs": 160_000, "wall": 1500, "chunk": 100, "minimise": 150},
}
REQUIRED_PROBES = {"quick": ("partial_frame_at_fault", "fault_fin", "fault_rst", "fault_stall_disable",
                             "reconnected", "fault_disable_race"),
                   "thorough": ("partial_frame_at_fault", "fault_fin", "fault_rst", "fault_stall_disable",
                                "reconnected", "fault_disable_race")}
EVIDENCE = {
    "level": "fault_enumeration",
    "rule": ("quick: every (mode, canonical stream, cut offset 0..len, fault kind) case enumerated, each under "
             "several seeded schedules; thorough adds random streams/segmentations. A run is non-trivial when the "
             "fault hit while >=1 byte of an incomplete frame was buffered, or during accept/connect, or while "
             "a close sequence was in progress; distinct = distinct (mode, stream, cut class, fault, session "
             "state at fault, outcome) tuples"),
    "real": ["secsgem.common.TcpServerConnection", "secsgem.common.TcpClientConnection",
             "secsgem.common.TcpConnection", "secsgem.hsms.HsmsProtocol", "secsgem.common.ProtocolDispatcher",
             "secsgem.common.ByteQueue", "secsgem.common.BlockSendInfo", "secsgem.hsms.ConnectionStateMachine"],
    "stub": ["socket/select (simkit.sockets.SimSocket, sim_select)", "threading/queue/time (simkit.facades)",
             "peer (reference E37 codec)"],
    "assumptions": ["simulated TCP model: FIFO per direction, close while another thread is in select() does not "
                    "wake it, later select on the closed socket raises ValueError (CPython behaviour)",
                    "bounded liveness: after the last fault the close sequence / disable() / reconnect must finish "
                    "within L = 2*max(T5,T6)+linktest+10 virtual seconds"],
}

FAULTS = ("fin", "rst", "stall_disable", "disable_now")


def canonical_streams():
    """Valid inbound streams for a passive endpoint (active: the Select.req is replaced by a Select.rsp)."""
    s1 = [("ctl", rc.SELECT_REQ, 1)]
    s2 = [("ctl", rc.SELECT_REQ, 1), ("data", 1, 1, True, 2, "")]
    body = rc.enc(rc.ls(rc.a("peer-mdln"), rc.a("1.0.0")))
    s3 = [("ctl", rc.SELECT_REQ, 1), ("data", 1, 13, True, 2, body.hex()), ("ctl", rc.LINKTEST_REQ, 3),
          ("data", 1, 1, True, 4, ""), ("data", 10, 3, False, 5, rc.enc(rc.ls(rc.b(1), rc.a("t" * 40))).hex())]
    return [[list(x) for x in s] for s in (s1, s2, s3)]


def build_stream(spec, active, select_system):
    frames = []
    for item in spec:
        if item[0] == "ctl":
            stype, system = item[1], item[2]
            if stype == rc.SELECT_REQ and active:
                frames.append(rc.control(rc.SELECT_RSP, select_system))
            else:
                frames.append(rc.control(stype, system))
        else:
            _, s, f, w, system, body = item
            frames.append(rc.data(s, f, w, system, bytes.fromhex(body)))
    return frames


SCHEDS = [
    {"policy": "sticky", "preempt": "line"},
    {"policy": "random", "p": 0.02, "preempt": "line"},
    {"policy": "random", "p": 0.1, "preempt": "line"},
    {"policy": "random", "p": 0.3, "preempt": "line"},
    {"policy": "pct", "d": 1, "horizon": 1500, "preempt": "line"},
    {"policy": "pct", "d": 3, "horizon": 1500, "preempt": "line"},
    {"policy": "rr", "q": 3, "preempt": "line"},
    {"policy": "random", "p": 0.2, "preempt": "sync"},
    {"policy": "random", "p": 0.5, "preempt": "sync"},
    {"policy": "pct", "d": 2, "horizon": 150, "preempt": "sync"},
]

_ENUM = None


def _enumeration():
    global _ENUM
    if _ENUM is None:
        cases = []
        for si, spec in enumerate(canonical_streams()):
            total = sum(len(f.encode()) for f in build_stream(spec, False, 0))
            for active in (False, True):
                for cut in range(0, total + 1):
                    for fault in FAULTS:
                        cases.append((si, active, cut, fault))
        _ENUM = cases
    return _ENUM


def gen_plan(rng, tier, index):
    cases = _enumeration()
    plan = {"kind": "cut"}
    if (tier == "quick" and index < 4 * len(cases)) or (tier != "quick" and rng.random() < 0.5):
        si, active, cut, fault = cases[index % len(cases)]
        sched = dict(SCHEDS[(index // len(cases) + rng.randrange(len(SCHEDS))) % len(SCHEDS)])
        spec = canonical_streams()[si]
        plan.update(stream=spec, stream_id=si, active=active, cut=cut, fault=fault)
    else:
        kind = rng.random()
        spec = random_stream(rng)
        total = sum(len(f.encode()) for f in build_stream(spec, False, 0))
        active = rng.random() < 0.5
        if kind < 0.18:
            plan["kind"] = "disable_race"
            plan.update(stream=spec, stream_id=-1, active=active, cut=0, fault="disable_race",
                        race_steps=rng.choice([0, 1, 2, 3, 5, 8, 13, 21, 34, 55, 89, 144, 233]),
                        peer_connects=rng.random() < 0.7)
        elif kind < 0.4:
            plan["kind"] = "connect_close"
            plan.update(stream=spec, stream_id=-1, active=active, cut=0, fault="fin")
        else:
            plan.update(stream=spec, stream_id=-1, active=active, cut=rng.randrange(0, total + 1),
                        fault=rng.choice(FAULTS))
        sched = dict(rng.choice(SCHEDS))
    # segmentation of the prefix: list of segment sizes; remainder goes in one piece
    segs = []
    mode = rng.randrange(5)
    remaining = plan["cut"]
    while remaining > 0 and len(segs) < 64:
        if mode == 0:
            n = remaining
        elif mode == 1:
            n = 1
        elif mode == 2:
            n = rng.choice([1, 2, 3, 4, 5, 10, 13, 14, 15])
        elif mode == 3:
            n = rng.randrange(1, remaining + 1)
        else:
            n = rng.choice([4, 14, 18, 1024])
        n = min(n, remaining)
        segs.append([n, rng.choice([0, 0, 0.0005, 0.01, 0.3])])
        remaining -= n
    if remaining:
        segs.append([remaining, 0])
    plan["segments"] = segs
    plan["fault_steps"] = rng.choice([0, 0, 1, 3, 10, 30, 100, 300])
    plan["t5"] = rng.choice([1, 2, 10])
    plan["t6"] = rng.choice([1, 5])
    plan["linktest"] = rng.choice([30, 30, 3])
    plan["latency"] = rng.choice([0.0, 0.0005, 0.02])
    plan["second_fault"] = rng.choice([None, None, "fin", "disable"])
    # application threads that send at the very instant of the fault (their sends fail or race the close sequence)
    plan["app_sends"] = rng.choice([0, 0, 0, 1, 2, 3])
    if plan["app_sends"]:
        plan["linktest"] = 100000   # no unrelated timer may be needed to get the close sequence going again
    sched["seed"] = rng.getrandbits(48)
    if plan["kind"] != "cut" or index >= 4 * len(cases):
        if rng.random() < 0.5:
            # fault: freshly started threads (accept/connect/receiver/select threads, API callers) frozen for a while
            sched["stall"] = {"q": rng.choice([0.1, 0.25, 0.4]), "J": rng.choice([8, 40, 200, 1000]),
                              "durs": [0.05, 0.5, 2.0], "max": 3}
            if rng.random() < 0.5:
                # wake-relative placement: shortly after one of the thread's first W wake-ups
                sched["stall"].update(W=rng.choice([0, 2, 6, 20]), J=rng.choice([5, 20, 60]))
    if plan["kind"] == "connect_close" and rng.random() < 0.6:
        plan["close_steps"] = rng.choice([0, 0, 1, 2, 3, 5, 8, 13, 21, 34, 55, 90])
    if plan["kind"] == "connect_close" and rng.random() < 0.7:
        # the connection dies while the accepting / connecting thread is still busy setting it up: that thread is frozen
        # early in its life (it is started anew for every connection) or right after the wake-up that hands it the socket
        sched["stall"] = {"q": 0.5, "J": rng.choice([10, 25, 40, 80]), "durs": [0.05, 0.5], "max": 2}
        if rng.random() < 0.4:
            sched["stall"].update(W=rng.choice([0, 1, 2, 3]), J=rng.choice([5, 20, 60]))
    plan["sched"] = sched
    return plan


def random_stream(rng):
    spec = [("ctl", rc.SELECT_REQ, 1)]
    system = 2
    for _ in range(rng.randrange(0, 6)):
        r = rng.random()
        if r < 0.2:
            spec.append(("ctl", rc.LINKTEST_REQ, system))
        elif r < 0.5:
            spec.append(("data", 1, 1, True, system, ""))
        elif r < 0.8:
            n = rng.choice([0, 1, 10, 200, 1010, 1024, 3000])
            spec.append(("data", 10, 3, False, system, rc.enc(rc.ls(rc.b(1), rc.a("x" * n))).hex()))
        else:
            spec.append(("data", 1, 13, True, system, rc.enc(rc.ls(rc.a("m"), rc.a("r"))).hex()))
        system += 1
    return spec


def sample_view(plan):
    return {k: plan[k] for k in ("kind", "active", "stream_id", "cut", "fault", "segments", "fault_steps",
                                 "second_fault", "app_sends", "t5", "t6", "sched") if k in plan}


def shrink_candidates(plan):
    if plan.get("fault_steps"):
        yield dict(plan, fault_steps=0)
    if plan.get("app_sends", 0) > 1:
        yield dict(plan, app_sends=plan["app_sends"] - 1)
    if plan.get("second_fault"):
        yield dict(plan, second_fault=None)
    if plan.get("latency"):
        yield dict(plan, latency=0.0)
    if len(plan.get("segments", [])) > 1:
        yield dict(plan, segments=[[plan["cut"], 0]])


# --------------------------------------------------------------------------- the run
def _hang_sig(sim, rule, what):
    """Signature: rule + innermost secsgem frames of the threads that are stuck."""
    tops = set()
    for th in sim.blocked_report():
        if th["role"] in ("harness",) or not th["stack"]:
            continue
        top = th["stack"][-1]
        idle = (th["role"] == "protocol_dispatcher" and top.endswith("_dispatcher_thread_function")) or \
               (th["role"] == "protocol_receiver" and top.endswith("_receiver_thread_function")) or \
               (th["role"] == "linktest_timer")
        if idle:
            continue
        tops.add(top)
    return f"{rule}|{what}|" + "+".join(sorted(tops))


def run(sim, plan):
    active = plan["active"]
    net = sim.make_net(latency=plan.get("latency", 0.0005))
    listener = hsmsenv.PeerListener(sim, configure=lambda p: None) if active else None
    ep = hsmsenv.Endpoint(sim, active, t5=plan["t5"], t6=plan["t6"])
    ep.listener = listener
    ep.proto._linktest_timeout = plan["linktest"]  # tuning knob (class default 30 s)
    L = 2 * max(plan["t5"], plan["t6"]) + min(plan["linktest"], 30) + 10
    state = {"conn": 0}

    def establish(first):
        """Bring up a TCP connection; returns the HsmsPeer or None."""
        if active:
            # a connection that the endpoint has established since the last one we used counts (it may already be up)
            n0 = getattr(listener, "used", 0)
            ok = sim.wait_until(lambda: len(listener.peers) > n0 and listener.peers[-1].open, plan["t5"] + 5)
            if ok:
                listener.used = len(listener.peers)
            return listener.peers[-1] if ok else None
        # a passive HSMS endpoint serves one connection at a time: an attempt that lands while the previous connection
        # is still being torn down is reset, a real client simply tries again
        end = sim.now + 8
        while sim.now < end:
            peer = hsmsenv.connect_peer(sim, label=f"peer{state['conn'] + 1}")
            if peer is None:
                sim.advance(0.25)
                continue
            sim.advance(0.15)
            if peer.eof is None:
                return peer
            sim.probe("connection_attempt_reset")
        return None

    # -- enable ---------------------------------------------------------------------------------
    ep.proto.enable()
    if plan["kind"] == "disable_race":
        sim.nontrivial = True
        sim.fault("fault_disable_race")
        racing = None
        if plan.get("peer_connects") and not active:
            # connection attempt races the disable
            racing = hsmsenv.SimSocket(_net=net)
            sim.spawn(lambda: _try_connect(racing), "racing_peer")
        if plan["race_steps"]:
            sim.run_others(plan["race_steps"], max_dt=1.0)
        call = ep.call_async("disable1", ep.proto.disable)
        if not sim.wait_until(lambda: call["done"], L):
            sim.violation("C09.R2", "disable() racing accept/connect did not return within "
                          f"{L} virtual s", sig=_hang_sig(sim, "C09.R2", "disable-race"))
        sim.abstract = ("disable_race", active, min(plan["race_steps"], 50), ep.state)
        if racing is not None:
            # the racing peer gives up: it must not occupy the endpoint's single connection during the verification
            racing.close()
            sim.advance(1.0)
        _reenable_and_verify(sim, plan, ep, establish, listener, L)
        return

    if plan["kind"] == "connect_close" and not active and plan.get("close_steps") is not None:
        # a port probe: the peer closes (or resets) a few kernel steps after the TCP connection exists, while the
        # accepting thread may still be busy handing the connection over
        sim.nontrivial = True
        peer = None
        end = sim.now + 8
        while peer is None and sim.now < end:
            peer = hsmsenv.connect_peer(sim, label="probe")
            if peer is None:
                sim.advance(0.25)
        if peer is None:
            sim.violation("C09.R3", "the enabled endpoint never accepted/established a first connection",
                          sig="C09.R3|initial-connect")
        state["conn"] += 1
        sim.focus(2)
        if plan["close_steps"]:
            sim.run_others(plan["close_steps"], max_dt=0.2)
        (peer.reset if plan["close_steps"] % 2 else peer.close)()
        sim.fault("fault_connect_close")
        sim.probe("port_probe")
        _after_link_loss(sim, plan, ep, peer, L, "connect-close")
        _reconnect_and_verify(sim, plan, ep, establish, L)
        sim.abstract = ("connect_close_probe", active, ep.state)
        return
    peer = establish(True)
    if peer is None:
        sim.violation("C09.R3", "the enabled endpoint never accepted/established a first connection",
                      sig="C09.R3|initial-connect")
    state["conn"] += 1
    select_system = 0
    if active:
        if not sim.wait_until(lambda: peer.frames_of(rc.SELECT_REQ), plan["t6"]):
            sim.violation("C09.R3", "active endpoint did not send Select.req on its first connection",
                          sig="C09.R3|no-select-req")
        select_system = peer.frames_of(rc.SELECT_REQ)[0].system
    if plan["kind"] == "connect_close":
        sim.nontrivial = True
        peer.close()
        sim.fault("fault_connect_close")
        _after_link_loss(sim, plan, ep, peer, L, "connect-close")
        _reconnect_and_verify(sim, plan, ep, establish, L)
        sim.abstract = ("connect_close", active, ep.state)
        return

    # from here on the peer sends exactly the planned prefix and then goes silent / closes
    peer.auto_linktest = False
    frames = build_stream(plan["stream"], active, select_system)
    ep.old_frames = {(f.system, f.stream, f.function, f.body) for f in frames if f.stype == 0}
    stream = b"".join(f.encode() for f in frames)
    cut = min(plan["cut"], len(stream))
    prefix = stream[:cut]
    # feed the prefix in the planned segments
    pos = 0
    for n, gap in plan["segments"]:
        if pos >= len(prefix):
            break
        piece = prefix[pos:pos + n]
        pos += len(piece)
        peer.send_bytes(piece, delay=None)
        if gap:
            sim.advance(gap)
    if pos < len(prefix):
        peer.send_bytes(prefix[pos:])
    # where does the cut fall?
    parser = rc.FrameParser()
    parser.feed(prefix)
    partial = parser.pending
    if partial:
        sim.probe("partial_frame_at_fault")
        if partial >= 4:
            sim.probe("partial_frame_ge4_at_fault")
    cut_class = "boundary" if partial == 0 else ("in-length" if partial < 4 else
                                                   ("in-header" if partial < 14 else "in-body"))
    if plan["fault_steps"]:
        sim.run_others(plan["fault_steps"], max_dt=2.0)
    else:
        sim.advance(0.05 if plan["latency"] <= 0.01 else 0.1)
    state_at_fault = ep.state
    sim.nontrivial = partial > 0 or plan["fault_steps"] > 0
    fault = plan["fault"]
    sim.fault("fault_" + fault)
    disabled = False
    if plan.get("app_sends"):
        import secsgem.secs.functions as sf

        sim.probe("app_send_at_fault", plan["app_sends"])
        for i in range(plan["app_sends"]):
            ep.call_async(f"send{i}", lambda: ep.proto.send_stream_function(sf.SecsS01F01()))
        if plan["fault_steps"] % 2:
            sim.run_others(1 + plan["fault_steps"] % 7, max_dt=0.01)
    if fault == "fin":
        peer.close()
    elif fault == "rst":
        peer.reset()
    else:
        if fault == "stall_disable":
            sim.advance(1.0)  # the peer has gone silent
        call = ep.call_async("disable1", ep.proto.disable)
        disabled = True
        if not sim.wait_until(lambda: call["done"], L):
            sim.violation("C09.R2", f"disable() did not return within {L} virtual s after the peer stalled at "
                          f"stream offset {cut} ({cut_class})", sig=_hang_sig(sim, "C09.R2", "disable"))
    _after_link_loss(sim, plan, ep, peer, L, f"{fault}@{cut_class}")
    sim.abstract = (active, plan.get("stream_id"), cut_class, fault, state_at_fault, len(plan["segments"]) > 1)
    if disabled:
        _reenable_and_verify(sim, plan, ep, establish, listener, L)
    else:
        _reconnect_and_verify(sim, plan, ep, establish, L)


def _try_connect(sock):
    try:
        sock.connect(hsmsenv.ADDR)
    except OSError:
        pass


def _after_link_loss(sim, plan, ep, peer, L, what):
    """R1: the close sequence completes: NOT_CONNECTED and a disconnected event for every connected event (the
    connected event of a connection may still be outstanding when its connect/accept thread is stalled: >=)."""
    # a thread that is frozen right now (stall fault) may still have the set-up of the dead connection in front of it:
    # the verdict is taken once everybody is running again
    sim.wait_until(lambda: not sim.k.stalled_now(), 6)
    sim.advance(0.05)

    def newer_connection():
        # an active endpoint reconnects on its own (T5): a younger connection shows that the old one was closed
        lst = getattr(ep, "listener", None)
        return lst is not None and peer in lst.peers and lst.peers[-1] is not peer and \
            lst.peers.index(peer) < len(lst.peers) - 1

    ok = sim.wait_until(lambda: (ep.state == "NOT_CONNECTED" and ep.disconnected_n >= ep.connected_n)
                        or newer_connection(), L)
    if not ok:
        if ep.disconnected_n >= ep.connected_n:
            # the close sequence ran to its end (disconnected event fired) but the session state is wrong
            sim.violation(
                "C09.R1",
                f"after {what}: the close sequence finished (disconnected event fired) but the endpoint reports "
                f"{ep.state} instead of NOT_CONNECTED",
                sig=f"C09.R1|state-after-close|{ep.state}")
        sim.violation(
            "C09.R1",
            f"after {what}: close sequence not finished within {L} virtual s: state={ep.state}, "
            f"connected events={ep.connected_n}, disconnected events={ep.disconnected_n}",
            sig=_hang_sig(sim, "C09.R1", "close-sequence"))


def _reconnect_and_verify(sim, plan, ep, establish, L):
    """R3: the still-enabled endpoint accepts/creates a new connection, selects, delivers the first frame sent."""
    for attempt in range(4):
        peer = establish(False)
        if peer is None:
            sim.violation("C09.R3", "after link loss the enabled endpoint did not accept/establish a new connection",
                          sig=_hang_sig(sim, "C09.R3", "no-new-connection"))
        try:
            _verify_session(sim, plan, ep, peer, L)
            break
        except PeerReset:
            sim.probe("connection_attempt_reset")
    else:
        sim.violation("C09.R3", "four connection attempts in a row were reset by the endpoint", sig="C09.R3|always-reset")
    sim.probe("reconnected")
    second = plan.get("second_fault")
    if second == "fin":
        peer.close()
        _after_link_loss(sim, plan, ep, peer, L, "second fin")
    _final_disable(sim, plan, ep, L)


def _reenable_and_verify(sim, plan, ep, establish, listener, L):
    if ep.state != "NOT_CONNECTED":
        sim.violation("C09.R1", f"after disable() returned the state is {ep.state}", sig="C09.R1|state-after-disable")
    if listener is not None:
        listener.used = len(listener.peers)   # connections of the time before the disable do not count
    call = ep.call_async("enable2", ep.proto.enable)
    if not sim.wait_until(lambda: call["done"], L):
        sim.violation("C09.R2", "enable() after disable() did not return", sig=_hang_sig(sim, "C09.R2", "enable"))
    for attempt in range(4):
        peer = establish(False)
        if peer is None:
            sim.violation("C09.R3", "after disable()+enable() the endpoint did not accept/establish a connection",
                          sig=_hang_sig(sim, "C09.R3", "no-connection-after-reenable"))
        try:
            _verify_session(sim, plan, ep, peer, L)
            break
        except PeerReset:
            sim.probe("connection_attempt_reset")
    else:
        sim.violation("C09.R3", "four connection attempts in a row were reset by the endpoint", sig="C09.R3|always-reset")
    sim.probe("reconnected")
    _final_disable(sim, plan, ep, L)


class PeerReset(Exception):
    """The endpoint reset this connection attempt before serving it (it serves one connection at a time)."""


def _verify_session(sim, plan, ep, peer, L):
    n_before = len(ep.received)
    if ep.active:
        if not sim.wait_until(lambda: peer.frames_of(rc.SELECT_REQ), plan["t6"] + 1):
            sim.violation("C09.R3", "no Select.req on the new connection", sig="C09.R3|no-select-req-2")
        # a peer answers every Select.req it gets (a select thread of the previous connection that was descheduled for
        # a while sends its request on this connection as well)
        for fr in peer.frames_of(rc.SELECT_REQ):
            peer.send(rc.control(rc.SELECT_RSP, fr.system))
        peer.auto_select = True
    else:
        peer.send(rc.control(rc.SELECT_REQ, 0x51))
        sim.wait_until(lambda: peer.frames_of(rc.SELECT_RSP, 0x51) or peer.eof is not None, plan["t6"] + 1)
        if peer.eof is not None and not peer.frames_of(rc.SELECT_RSP, 0x51) and not peer.frames:
            raise PeerReset()
        if not peer.frames_of(rc.SELECT_RSP, 0x51):
            sim.violation("C09.R3", "Select.req on the new connection was not answered",
                          sig=_hang_sig(sim, "C09.R3", "select-unanswered"))
    if not sim.wait_until(lambda: ep.state == "CONNECTED_SELECTED", plan["t6"] + 1):
        sim.violation("C09.R3", f"new connection did not reach SELECTED (state {ep.state})",
                      sig="C09.R3|not-selected")
    body = rc.enc(rc.ls(rc.b(7), rc.a("fresh")))
    peer.send(rc.data(10, 3, False, 0xABCD01, body))
    if not sim.wait_until(lambda: len(ep.received) > n_before, 5):
        sim.violation("C09.R3", "data message on the new connection was not delivered (stale bytes or wedged "
                      "receive path)", sig=_hang_sig(sim, "C09.R3", "not-delivered"))
    sim.wait_until(lambda: any(r[1] == 0xABCD01 for r in ep.received[n_before:]), 5)
    new = ep.received[n_before:]
    fresh = [r for r in new if r[1:6] == (0xABCD01, 10, 3, False, body)]
    # messages that were completely received on the previous connection may legitimately be delivered late (the
    # dispatcher was busy); anything else in front of the fresh message is debris of the old connection
    old_ok = getattr(ep, "old_frames", set())
    junk = [r[1:5] for r in new if r[1:6] != (0xABCD01, 10, 3, False, body) and (r[1], r[2], r[3], r[5]) not in old_ok]
    if len(fresh) != 1 or junk:
        sim.violation("C09.R3", f"on the new connection the first message sent was delivered {len(fresh)} times; other "
                      f"deliveries that were never sent: {junk[:3]}", sig="C09.R3|wrong-first-frame")


def _final_disable(sim, plan, ep, L):
    call = ep.call_async("disable_final", ep.proto.disable)
    if not sim.wait_until(lambda: call["done"], L):
        sim.violation("C09.R2", f"final disable() did not return within {L} virtual s",
                      sig=_hang_sig(sim, "C09.R2", "final-disable"))
    sim.wait_until(lambda: not sim.k.stalled_now(), 6)
    ok = sim.wait_until(lambda: ep.state == "NOT_CONNECTED" and ep.disconnected_n >= ep.connected_n, 5)
    if not ok:
        sim.violation("C09.R1", f"after the final disable(): state={ep.state} connected={ep.connected_n} "
                      f"disconnected={ep.disconnected_n}", sig="C09.R1|final-state")


def on_abort(sim, plan, abort):
    if abort.kind == "quiescent-blocked":
        sim.violation("C09.R4", "every thread blocked for ever", sig=_hang_sig(sim, "C09.R4", "deadlock"), stop=False)

"""C13 - status variables, equipment constants and alarms answer as a table reference model predicts.

Real: StatusDataCollectionCapability, EquipmentConstantsCapability, AlarmCapability, ClockCapability (virtual clock),
GemEquipmentHandler and the HSMS stack.  Stub: SimSocket, scripted host.  Oracle: table model (DESIGN.md B.5); every
reply decoded with the independent E5 decoder.
"""

from __future__ import annotations

from simkit import gemenv, refcodec as rc

PROP = "C13"
SHRINK = ("ops",)
LIMITS = {"max_steps": 800_000, "max_vtime": 2000.0}
BUDGET = {
    "quick": {"runs": 3500, "wall": 150, "chunk": 40, "minimise": 150},
    "thorough": {"runs": 150_000, "wall": 1500, "chunk": 100, "minimise": 300},
}
REQUIRED_PROBES = {"quick": ("s1f3", "s1f11", "s2f13", "s2f29", "s2f15_ok", "s2f15_refused", "s2f15_boundary", "s5f3",
                             "s5f5", "s5f7", "alarm_set_enabled", "alarm_set_disabled", "unknown_id",
                             "multi_item_refused_after_valid", "transport_secsi"),
                   "thorough": ("s1f3", "s1f11", "s2f13", "s2f29", "s2f15_ok", "s2f15_refused", "s2f15_boundary", "s5f3",
                                "s5f5", "s5f7", "alarm_set_enabled", "alarm_set_disabled", "unknown_id",
                                "multi_item_refused_after_valid", "s5f2_unanswered", "transport_secsi")}
EVIDENCE = {
    "level": "exploration",
    "rule": ("seeded sequences of S1F3, S1F11, S2F13, S2F15, S2F29, S5F3, S5F5, S5F7 with id lists (empty = all, "
             "known, unknown, repeated, numeric ids sent as U1/U2/U4/I4, text ids) and values (in range, at "
             "min/max, +-1 outside), interleaved with set_alarm/clear_alarm from an application thread (S5F2 "
             "answered or not) and status variable updates, two alarms changed by two threads at once; non-trivial "
             "= history has an S2F15 and an alarm change; distinct = distinct op-kind sequences"),
    "real": ["secsgem.gem.StatusDataCollectionCapability", "secsgem.gem.EquipmentConstantsCapability",
             "secsgem.gem.AlarmCapability", "secsgem.gem.ClockCapability", "secsgem.gem.GemEquipmentHandler",
             "secsgem.hsms.HsmsProtocol", "secsgem.secsi.SecsIProtocol + SerialConnection (a fifth of the runs)"],
    "stub": ["socket/select (SimSocket)", "serial.Serial (SimLine) with the reference E4 peer", "scripted host (reference codecs)"],
    "assumptions": ["an unknown ALID in S5F5 may be answered with an S5F0 abort or a zero-length entry (not prescribed)",
                    "while set_alarm/clear_alarm is blocked on an unanswered S5F1 the alarm's set state is accepted "
                    "either way", "values of the wrong type are outside the quantifier and are not sent"],
}

SCHEDS = [
    {"policy": "sticky", "preempt": "line"},
    {"policy": "random", "p": 0.05, "preempt": "line"},
    {"policy": "random", "p": 0.3, "preempt": "line"},
    {"policy": "pct", "d": 2, "horizon": 3000, "preempt": "line"},
    {"policy": "rr", "q": 3, "preempt": "line"},
    {"policy": "random", "p": 0.5, "preempt": "sync"},
    {"policy": "pct", "d": 2, "horizon": 150, "preempt": "sync"},
]
T3 = 2.0
SVIDS = [10, "svt", 1002, 1003, 1004, 1005, 9999, "nope"]
ECIDS = [1, 2, 20, 21, "ecf", 9999, "nope"]
ALIDS = [25, 26, 27, 99]
OPS = ["s1f3", "s1f11", "s2f13", "s2f29", "s2f15", "s2f15", "s2f15", "s5f3", "s5f3", "s5f5", "s5f7", "alarm", "alarm",
       "alarm", "setsv", "alarm_pair"]
# ec id -> (type code, min, max, default, name, unit)
EC_DEF = {1: (rc.I2, 10, 120, 10, "EstablishCommunicationsTimeout", "sec"), 2: (rc.I4, 0, 2, 1, "TimeFormat", ""),
          20: (rc.U4, 0, 100, 50, "ec20", "mm"), 21: (rc.U1, None, None, 5, "ec21", ""),
          "ecf": (rc.F4, -1.5, 1.5, 0.5, "ecfloat", "V")}


def gen_plan(rng, tier, index):
    ops = []
    for _ in range(rng.choice([4, 8, 14, 22, 35])):
        op = rng.choice(OPS)
        if op in ("s1f3", "s1f11"):
            ids = [] if rng.random() < 0.15 else [rng.choice(SVIDS if rng.random() < 0.3 else SVIDS[:6])
                                                  for _ in range(rng.choice([1, 1, 2, 3, 5]))]
            ops.append([op, ids, rng.choice(["u4", "u4", "u1", "u2", "i4"])])
        elif op in ("s2f13", "s2f29"):
            ids = [] if rng.random() < 0.15 else [rng.choice(ECIDS if rng.random() < 0.3 else ECIDS[:5])
                                                  for _ in range(rng.choice([1, 1, 2, 3, 5]))]
            ops.append([op, ids, rng.choice(["u4", "u4", "u1", "u2", "i4"])])
        elif op == "s2f15":
            pairs = []
            for _ in range(rng.choice([1, 1, 2, 3, 4])):
                ecid = rng.choice(ECIDS if rng.random() < 0.15 else ECIDS[:5])
                pairs.append([ecid, rng.choice(["in", "in", "in", "min", "max", "below", "above"]), rng.randrange(1000)])
            ops.append([op, pairs])
        elif op == "s5f3":
            ops.append([op, rng.random() < 0.7, rng.choice(ALIDS if rng.random() < 0.2 else ALIDS[:3])])
        elif op == "s5f5":
            ids = [] if rng.random() < 0.3 else [rng.choice(ALIDS if rng.random() < 0.15 else ALIDS[:3])
                                                 for _ in range(rng.choice([1, 2, 3]))]
            ops.append([op, ids])
        elif op == "s5f7":
            ops.append([op])
        elif op == "alarm":
            ops.append([op, rng.choice(["set", "set", "clear"]), rng.choice(ALIDS[:3]), rng.random() < 0.85])
        elif op == "alarm_pair":
            # two application threads change two different alarms at the same time
            a1, a2 = rng.sample(ALIDS[:3], 2)
            ops.append([op, [rng.choice(["set", "set", "clear"]), a1], [rng.choice(["set", "set", "clear"]), a2]])
        else:
            ops.append([op, rng.choice([10, "svt"]), rng.randrange(1000)])
    plan = {"ops": ops, "active": rng.random() < 0.3, "latency": rng.choice([0.0, 0.0005, 0.01])}
    plan["transport"] = rng.choice(["hsms", "hsms", "hsms", "hsms", "secsi"])
    sched = dict(rng.choice(SCHEDS))
    sched["seed"] = rng.getrandbits(48)
    plan["sched"] = sched
    return plan


def sample_view(plan):
    return plan


def shrink_candidates(plan):
    for i, op in enumerate(plan["ops"]):
        if op[0] in ("s1f3", "s1f11", "s2f13", "s2f29", "s2f15", "s5f5") and isinstance(op[1], list) and len(op[1]) > 1:
            for j in range(len(op[1])):
                new = list(op)
                new[1] = op[1][:j] + op[1][j + 1:]
                yield dict(plan, ops=plan["ops"][:i] + [new] + plan["ops"][i + 1:])


def _id_item(i, fmt):
    if isinstance(i, str):
        return rc.a(i)
    if fmt == "u1" and i < 256:
        return rc.u1(i)
    if fmt == "u2" and i < 65536:
        return rc.u2(i)
    if fmt == "i4":
        return rc.i4(i)
    return rc.u4(i)


def _num(item):
    """Plain comparable value of a decoded item (numbers compared numerically, independent of the integer width)."""
    if item.fmt in (rc.A, rc.J):
        return ("a", item.value)
    if item.fmt == rc.B:
        return ("b", bytes(item.value))
    if item.fmt == rc.L:
        # secsgem reports array-valued variables (alarm / event lists) as a list of one-element items
        if all(v.fmt not in (rc.L, rc.A, rc.J, rc.B) and len(v.value) == 1 for v in item.value):
            return ("n", [v.value[0] for v in item.value])
        return ("l", [_num(v) for v in item.value])
    return ("n", [float(v) if item.fmt in (rc.F4, rc.F8) else v for v in item.value])


def _clock_ok(text, time_format, t0, t1):
    """Is `text` the virtual wall clock (UTC) at some instant in [t0, t1] in the configured E30 time format?"""
    import datetime

    from simkit.facades import EPOCH

    try:
        if time_format == 0:
            dt = datetime.datetime.strptime(text, "%y%m%d%H%M%S")
            res = 1.0
        elif time_format == 2:
            dt = datetime.datetime.fromisoformat(text).astimezone(datetime.timezone.utc).replace(tzinfo=None)
            res = 0.000002
        else:
            if len(text) != 16:
                return False
            dt = datetime.datetime.strptime(text[:14], "%Y%m%d%H%M%S") + datetime.timedelta(milliseconds=10 * int(text[14:]))
            res = 0.01
    except ValueError:
        return False
    ts = (dt - datetime.datetime(1970, 1, 1)).total_seconds() - EPOCH
    return t0 - res - 1e-6 <= ts <= t1 + 1e-6


def run(sim, plan):
    import secsgem.gem
    import secsgem.secs.variables as var

    k = sim.k
    sim.make_net(latency=plan["latency"])
    transport = plan.get("transport", "hsms")
    secsi = transport == "secsi"
    line = sim.make_line(a="SIMA", b="SIMB") if secsi else None
    if secsi:
        sim.probe("transport_secsi")
    env = gemenv.GemEnv(sim, role="equipment", active=plan["active"], t3=T3, delay=10, transport=transport, line=line,
                        initial_control_state="ONLINE", initial_online_control_state="REMOTE")
    eq = env.handler
    eq.status_variables[10] = secsgem.gem.StatusVariable(10, "sv10", "mm", var.U4, False)
    eq.status_variables[10].value = 7
    eq.status_variables["svt"] = secsgem.gem.StatusVariable("svt", "svtext", "", var.String, False)
    eq.status_variables["svt"].value = "init"
    eq.equipment_constants[20] = secsgem.gem.EquipmentConstant(20, "ec20", 0, 100, 50, "mm", var.U4, False)
    eq.equipment_constants[21] = secsgem.gem.EquipmentConstant(21, "ec21", None, None, 5, "", var.U1, False)
    eq.equipment_constants["ecf"] = secsgem.gem.EquipmentConstant("ecf", "ecfloat", -1.5, 1.5, 0.5, "V", var.F4, False)
    for alid, code in ((25, 1), (26, 2), (27, 6)):
        eq.alarms[alid] = secsgem.gem.Alarm(alid, f"alarm{alid}", f"text {alid}", code, 100 + alid, 200 + alid)
    # model tables
    sv = {10: ("n", [7]), "svt": ("a", "init"), 1002: ("b", b"\x05")}
    sv_order = [1001, 1002, 1003, 1004, 1005, 10, "svt"]
    sv_names = {1001: ("Clock", ""), 1002: ("ControlState", ""), 1003: ("EventsEnabled", ""), 1004: ("AlarmsEnabled", ""),
                1005: ("AlarmsSet", ""), 10: ("sv10", "mm"), "svt": ("svtext", "")}
    ec = {i: d[3] for i, d in EC_DEF.items()}
    ec_order = [1, 2, 20, 21, "ecf"]
    alarm = {a: {"enabled": False, "set": False, "code": c, "pending": False} for a, c in ((25, 1), (26, 2), (27, 6))}
    s5f2_answer = {"on": True}

    def peer_setup(peer):
        def s5f1(fr):
            if s5f2_answer["on"]:
                return rc.data(5, 2, False, fr.system, rc.enc(rc.b(0)))
            return None
        peer.auto[(5, 1)] = s5f1

    env.configure_peer = peer_setup
    env.start()
    peer = env.establish()
    if peer is None:
        sim.inconclusive("communication not established")
    seen51 = {"n": 0}
    hist = []
    flags = {"s2f15": False, "alarm": False}

    def viol(rule, text, sig):
        sim.violation(rule, f"{text}; history {hist[-5:]}", sig=sig)

    def sv_value(i):
        if i == 1003:
            return ("n", [])
        if i == 1004:
            return ("n", [a for a in (25, 26, 27) if alarm[a]["enabled"]])
        if i == 1005:
            return ("n", [a for a in (25, 26, 27) if alarm[a]["set"]])
        return sv[i]

    def reply_list(rep, s, f, n_expected, what):
        if rep is None:
            viol("C13.R1", f"{what}: no reply", f"C13.R1|{what}-no-reply")
        if (rep.stream, rep.function) != (s, f):
            viol("C13.R1", f"{what}: answered with S{rep.stream}F{rep.function}", f"C13.R1|{what}-answered-s{rep.stream}f{rep.function}")
        try:
            item = rc.decode_body(rep.body)
        except rc.DecodeError as exc:
            viol("C13.R1", f"{what}: reply body not decodable: {exc}", f"C13.R1|{what}-undecodable")
        if item is None or item.fmt != rc.L or len(item.value) != n_expected:
            viol("C13.R1", f"{what}: expected a list of {n_expected} items, got {item!r}", f"C13.R1|{what}-item-count")
        return item.value

    def new_s5f1():
        frames = peer.of(5, 1)[seen51["n"]:]
        seen51["n"] += len(frames)
        out = []
        for fr in frames:
            it = rc.decode_body(fr.body)
            alcd = it.value[0].value[0]
            out.append((it.value[1].plain(), bool(alcd & 0x80), alcd & 0x7F))
        return out

    def alarm_entry_ok(entry, alid):
        alcd = entry.value[0].value[0]
        a = alarm[alid]
        ok_set = (bool(alcd & 0x80) == a["set"]) or a["pending"]
        return entry.value[1].plain() == alid and ok_set and (alcd & 0x7F) == a["code"] and \
            entry.value[2].value == f"text {alid}"

    for op in plan["ops"]:
        kind = op[0]
        hist.append(op)
        if kind in ("s1f3", "s1f11"):
            ids, fmt = op[1], op[2]
            sim.probe(kind)
            if any(i not in sv_names for i in ids):
                sim.probe("unknown_id")
            t_req = k.now
            rep = peer.request(1, 3 if kind == "s1f3" else 11, rc.ls(*[_id_item(i, fmt) for i in ids]), timeout=T3 + 1)
            want_ids = ids if ids else sv_order
            items = reply_list(rep, 1, 4 if kind == "s1f3" else 12, len(want_ids), kind)
            for i, it in zip(want_ids, items):
                if kind == "s1f3":
                    if i not in sv_names:
                        if len(it.value) != 0:
                            viol("C13.R1", f"S1F4: unknown SVID {i!r} must give a zero-length item, got {it!r}", "C13.R1|s1f4-unknown-not-empty")
                    elif i == 1001:
                        if it.fmt != rc.A or not _clock_ok(it.value, ec[2], t_req, k.now):
                            viol("C13.R1", f"S1F4: clock value {it!r} with TimeFormat {ec[2]} at virtual time "
                                 f"{t_req:.3f}..{k.now:.3f}", "C13.R1|s1f4-clock")
                    elif _num(it) != sv_value(i):
                        viol("C13.R1", f"S1F4: SVID {i!r} reported {it!r}, current value is {sv_value(i)}; requested {ids}",
                             "C13.R1|s1f4-value")
                else:
                    name, unit = sv_names.get(i, ("", ""))
                    got = (it.value[0].plain(), it.value[1].value, it.value[2].value) if it.fmt == rc.L and len(it.value) == 3 else None
                    if got != (i, name, unit):
                        viol("C13.R1", f"S1F12: entry for {i!r} is {it!r}, expected {(i, name, unit)}", "C13.R1|s1f12-entry")
        elif kind in ("s2f13", "s2f29"):
            ids, fmt = op[1], op[2]
            sim.probe(kind)
            if any(i not in EC_DEF for i in ids):
                sim.probe("unknown_id")
            rep = peer.request(2, 13 if kind == "s2f13" else 29, rc.ls(*[_id_item(i, fmt) for i in ids]), timeout=T3 + 1)
            want_ids = ids if ids else ec_order
            items = reply_list(rep, 2, 14 if kind == "s2f13" else 30, len(want_ids), kind)
            for i, it in zip(want_ids, items):
                if kind == "s2f13":
                    if i not in EC_DEF:
                        if len(it.value) != 0:
                            viol("C13.R1", f"S2F14: unknown ECID {i!r} must give a zero-length item, got {it!r}", "C13.R1|s2f14-unknown-not-empty")
                    else:
                        want = ("n", [float(ec[i]) if EC_DEF[i][0] == rc.F4 else ec[i]])
                        if _num(it) != want:
                            viol("C13.R1", f"S2F14: ECID {i!r} reported {it!r}, current value is {ec[i]}", "C13.R1|s2f14-value")
                        lo, hi = EC_DEF[i][1], EC_DEF[i][2]
                        v = it.value[0] if it.value else None
                        if v is not None and ((lo is not None and v < lo) or (hi is not None and v > hi)):
                            viol("C13.R2", f"equipment constant {i!r} holds {v}, outside [{lo}, {hi}]", "C13.R2|outside-limits")
                else:
                    if it.fmt != rc.L or len(it.value) != 6:
                        viol("C13.R1", f"S2F30: entry for {i!r} is {it!r}", "C13.R1|s2f30-entry-shape")
                    if i not in EC_DEF:
                        if it.value[0].plain() != i or any(len(x.value) != 0 for x in it.value[1:]):
                            viol("C13.R1", f"S2F30: unknown ECID {i!r} entry {it!r}", "C13.R1|s2f30-unknown-entry")
                    else:
                        _t, lo, hi, dflt, name, unit = EC_DEF[i]
                        got = (it.value[0].plain(), it.value[1].value, it.value[5].value)
                        if got != (i, name, unit):
                            viol("C13.R1", f"S2F30: entry for {i!r}: {it!r}", "C13.R1|s2f30-entry")
                        for idx, wantv in ((2, lo), (3, hi), (4, dflt)):
                            gv = it.value[idx]
                            if wantv is None:
                                okv = len(gv.value) == 0
                            else:
                                okv = gv.fmt not in (rc.A, rc.L) and len(gv.value) == 1 and float(gv.value[0]) == float(wantv)
                            if not okv:
                                viol("C13.R1", f"S2F30: ECID {i!r} field {idx} is {gv!r}, expected {wantv}", "C13.R1|s2f30-limits")
        elif kind == "s2f15":
            flags["s2f15"] = True
            pairs = []
            ok_all = True
            seen_valid = False
            for ecid, where, salt in op[1]:
                if ecid not in EC_DEF:
                    sim.probe("unknown_id")
                    if seen_valid:
                        sim.probe("multi_item_refused_after_valid")
                    pairs.append((ecid, rc.u4(1), None))
                    ok_all = False
                    continue
                t, lo, hi, dflt, _n, _u = EC_DEF[ecid]
                if lo is None:
                    val = salt % 200
                    inside = True
                elif t == rc.F4:
                    val = {"in": (salt % 300) / 100.0 - 1.5, "min": lo, "max": hi, "below": lo - 0.5, "above": hi + 0.25}[where]
                    inside = lo <= val <= hi
                else:
                    val = {"in": lo + salt % (hi - lo + 1), "min": lo, "max": hi, "below": lo - 1, "above": hi + 1}[where]
                    inside = lo <= val <= hi
                if where in ("min", "max"):
                    sim.probe("s2f15_boundary")
                if not inside:
                    if seen_valid:
                        sim.probe("multi_item_refused_after_valid")
                    ok_all = False
                else:
                    seen_valid = True
                if t == rc.F4:
                    item = rc.f4(val)
                    import struct
                    val = struct.unpack(">f", struct.pack(">f", val))[0]
                elif val < 0:
                    item = rc.i4(val)
                else:
                    item = rc.Item(t, [val]) if t != rc.U1 or val < 256 else rc.u2(val)
                pairs.append((ecid, item, val))
            body = rc.ls(*[rc.ls(_id_item(e, "u4"), it) for e, it, _v in pairs])
            rep = peer.request(2, 15, body, timeout=T3 + 1)
            if rep is None:
                viol("C13.R2", "S2F15: no reply", "C13.R2|s2f15-no-reply")
            if (rep.stream, rep.function) == (2, 16):
                eac = rc.decode_body(rep.body).value[0]
            elif (rep.stream, rep.function) == (2, 0):
                eac = "abort"
            else:
                viol("C13.R2", f"S2F15 answered with S{rep.stream}F{rep.function}", "C13.R2|s2f15-reply-type")
            if ok_all and eac != 0:
                viol("C13.R2", f"S2F15 with known ids and values inside their limits was refused (EAC {eac}): {op[1]}",
                     "C13.R2|valid-refused")
            if not ok_all and eac == 0:
                viol("C13.R2", f"S2F15 with an unknown id or a value outside its limits was accepted (EAC 0): {op[1]} "
                     f"values {[(e, v) for e, _i, v in pairs]}", "C13.R2|invalid-accepted")
            if eac == 0:
                sim.probe("s2f15_ok")
                for ecid, _it, val in pairs:
                    ec[ecid] = val
            else:
                sim.probe("s2f15_refused")
            # all-or-nothing: read everything back
            rep = peer.request(2, 13, rc.ls(), timeout=T3 + 1)
            items = reply_list(rep, 2, 14, len(ec_order), "s2f13-readback")
            for i, it in zip(ec_order, items):
                want = ("n", [float(ec[i]) if EC_DEF[i][0] == rc.F4 else ec[i]])
                if _num(it) != want:
                    viol("C13.R2", f"after S2F15 {op[1]} (EAC {eac}): constant {i!r} is {it!r}, model says {ec[i]} "
                         f"({'nothing may change on a refusal' if eac != 0 else 'all must be applied'})",
                         "C13.R2|" + ("partial-update-on-refusal" if eac != 0 else "not-applied"))
                direct = eq.equipment_constants[i].value if i not in (1, 2) else None
                lo, hi = EC_DEF[i][1], EC_DEF[i][2]
                if direct is not None and ((lo is not None and direct < lo) or (hi is not None and direct > hi)):
                    viol("C13.R2", f"equipment_constants[{i!r}].value == {direct} outside [{lo}, {hi}]", "C13.R2|outside-limits")
        elif kind == "s5f3":
            sim.probe("s5f3")
            enable, alid = op[1], op[2]
            rep = peer.request(5, 3, rc.ls(rc.b(0x80 if enable else 0), rc.u4(alid)), timeout=T3 + 1)
            if rep is None or (rep.stream, rep.function) != (5, 4):
                viol("C13.R3", f"S5F3 answered with {rep}", "C13.R3|s5f3-reply")
            ack = rc.decode_body(rep.body).value[0]
            if alid in alarm:
                if ack != 0:
                    viol("C13.R3", f"S5F3 for known alarm {alid} refused (ACKC5 {ack})", "C13.R3|s5f3-known-refused")
                alarm[alid]["enabled"] = enable
            elif ack == 0:
                viol("C13.R3", f"S5F3 for unknown alarm {alid} accepted", "C13.R3|s5f3-unknown-accepted")
        elif kind == "s5f5":
            sim.probe("s5f5")
            ids = op[1]
            rep = peer.request(5, 5, rc.ls(*[rc.u4(a) for a in ids]), timeout=T3 + 1)  # secsgem catalogues S5F5 as a list of ALID
            if rep is None:
                viol("C13.R3", "S5F5: no reply", "C13.R3|s5f5-no-reply")
            if any(a not in alarm for a in ids):
                sim.probe("unknown_id")
                if (rep.stream, rep.function) == (5, 0):
                    continue
            want_ids = ids if ids else [25, 26, 27]
            items = reply_list(rep, 5, 6, len(want_ids), "s5f5")
            for a, it in zip(want_ids, items):
                if a not in alarm:
                    continue
                if not alarm_entry_ok(it, a):
                    viol("C13.R3", f"S5F6 entry for alarm {a}: {it!r}, model {alarm[a]}", "C13.R3|s5f6-entry")
        elif kind == "s5f7":
            sim.probe("s5f7")
            rep = peer.request(5, 7, None, timeout=T3 + 1)
            want_ids = [a for a in (25, 26, 27) if alarm[a]["enabled"]]
            items = reply_list(rep, 5, 8, len(want_ids), "s5f7")
            for a, it in zip(want_ids, items):
                if not alarm_entry_ok(it, a):
                    viol("C13.R3", f"S5F8 entry for alarm {a}: {it!r}, model {alarm[a]}", "C13.R3|s5f8-entry")
        elif kind == "alarm":
            flags["alarm"] = True
            what, alid, answer = op[1], op[2], op[3]
            a = alarm[alid]
            new_s5f1()
            s5f2_answer["on"] = answer
            if not answer:
                sim.probe("s5f2_unanswered")
            rec = {"done": False}

            def body(what=what, alid=alid, rec=rec):
                (eq.set_alarm if what == "set" else eq.clear_alarm)(alid)
                rec["done"] = True

            sim.spawn(body, f"app_alarm_{what}", role="app")
            change = (what == "set") != a["set"]
            expect = 1 if (change and a["enabled"]) else 0
            sim.probe("alarm_set_enabled" if a["enabled"] else "alarm_set_disabled")
            a["pending"] = True
            if not sim.wait_until(lambda: rec["done"], T3 + 2):
                viol("C13.R4", f"{what}_alarm({alid}) did not return", "C13.R4|alarm-call-stuck")
            a["pending"] = False
            sim.advance(0.2)
            if change:
                a["set"] = what == "set"
            got = new_s5f1()
            if len(got) != expect:
                viol("C13.R4", f"{what}_alarm({alid}) with enabled={a['enabled']} change={change}: {len(got)} S5F1 "
                     f"reports {got}, expected {expect}", f"C13.R4|s5f1-count-{len(got)}-want-{expect}")
            for (gid, gset, gcode) in got:
                if gid != alid or gset != (what == "set") or gcode != a["code"]:
                    viol("C13.R4", f"S5F1 for {what}_alarm({alid}): ALID {gid} set={gset} code={gcode}", "C13.R4|s5f1-content")
            s5f2_answer["on"] = True
        elif kind == "alarm_pair":
            flags["alarm"] = True
            sim.probe("alarm_pair")
            new_s5f1()
            s5f2_answer["on"] = True
            recs = []
            want = []
            for what, alid in (op[1], op[2]):
                a = alarm[alid]
                change = (what == "set") != a["set"]
                if change and a["enabled"]:
                    want.append((alid, what == "set", a["code"]))
                if change:
                    a["set"] = what == "set"
                rec = {"done": False}
                recs.append(rec)

                def body(what=what, alid=alid, rec=rec):
                    (eq.set_alarm if what == "set" else eq.clear_alarm)(alid)
                    rec["done"] = True

                sim.spawn(body, f"app_alarm_{what}_{alid}", role="app")
            sim.focus(2)
            if not sim.wait_until(lambda: all(r["done"] for r in recs), 2 * T3 + 2):
                viol("C13.R4", f"concurrent alarm changes {op[1:]} did not return", "C13.R4|alarm-call-stuck")
            sim.advance(0.2)
            got = new_s5f1()
            if sorted(got) != sorted(want):
                viol("C13.R4", f"concurrent alarm changes {op[1:]}: S5F1 reports {got}, expected {want} (any order)",
                     "C13.R4|s5f1-concurrent")
        else:
            vid, n = op[1], op[2]
            if vid == 10:
                eq.status_variables[10].value = n
                sv[10] = ("n", [n])
            else:
                eq.status_variables["svt"].value = f"t{n}"
                sv["svt"] = ("a", f"t{n}")
    sim.advance(0.3)
    if new_s5f1():
        viol("C13.R4", "unexpected S5F1 at the end", "C13.R4|s5f1-extra")
    sim.nontrivial = flags["s2f15"] and flags["alarm"]
    sim.abstract = [o[0] for o in plan["ops"]][:24]

#!/venv/bin/python
"""Regenerate /verif/MANIFEST.json from the scenario modules that exist (keeps it valid at all times)."""
import importlib, json, os, sys

VERIF = os.path.dirname(os.path.dirname(os.path.abspath(__file__)))
sys.path.insert(0, VERIF)
sys.path.insert(0, os.environ.get("VERIF_REPO", "/repo"))

NA = {
    "C01": "pure function of its input (item codec): no schedule, clock, I/O or fault for a simulator to control (DESIGN.md section 6)",
    "C02": "pure function of the input byte string (DESIGN.md section 6)",
    "C03": "pure functions of (class, value) and static catalogue consistency (DESIGN.md section 6)",
    "C14": "agreement of two pure codecs; no schedule, clock or fault in it (DESIGN.md section 6)",
    "C15": "SML print/parse and parser termination depend only on the input text (DESIGN.md section 6)",
    "C19": "SFDL parsing is a pure function of the definition text (DESIGN.md section 6)",
}
ALL = [f"C{i:02d}" for i in range(1, 21)]

checks, na = [], []
for pid in ALL:
    if pid in NA:
        na.append({"property_id": pid, "reason": NA[pid]})
        continue
    path = os.path.join(VERIF, "scenarios", pid.lower() + ".py")
    if not os.path.exists(path):
        na.append({"property_id": pid, "reason": "not claimed yet: the simulation scenario for this property is not built (work in progress)"})
        continue
    scn = importlib.import_module("scenarios." + pid.lower())
    man = getattr(scn, "MANIFEST", {})
    ev = scn.EVIDENCE
    checks.append({
        "property_id": pid,
        "quick_cmd": f"./check {pid} --tier quick",
        "thorough_cmd": f"./check {pid} --tier thorough",
        "evidence_file": f"evidence/{pid}.json",
        "replay_cmd_template": f"./check {pid} --replay {{path}}",
        "engine": "simkit",
        "level_claimed": {
            "category": ev.get("level", "exploration"),
            "text": man.get("text", ev["rule"]),
            "design_ref": man.get("design_ref", f"DESIGN.md section 5 ({pid})"),
        },
        "level_note": man.get("note", "; ".join(ev.get("assumptions", [])) or "simulated primitives are the trusted base"),
        "technique": man.get("technique", "deterministic simulation with fault injection: seeded search over schedules, "
                                          "segmentations and fault sequences of the real threaded code on a simulated "
                                          "kernel (threads, clock, sockets), oracles from independent reference codecs/models"),
    })

doc = {
    "version": 1,
    "setup_cmd": "./check setup",
    "hooks": {
        "guard": "SECSGEM_VERIF",
        "enable": "no hooks in /repo: every seam is a module-level import replaced at run time or the Settings.create_connection factory; SECSGEM_VERIF is reserved and unused",
        "baseline_off_cmd": "cd /repo && /venv/bin/python -m pytest -q -p no:cacheprovider --timeout=900",
        "source_commits": [],
        "add_only": True,
    },
    "engines": [{"name": "simkit", "path": "simkit/", "serves_properties": [c["property_id"] for c in checks],
                 "kind_free_text": "deterministic simulator for threaded Python: baton-passing real threads, virtual clock, "
                                   "sys.monitoring line-level pre-emption, simulated sockets/serial line, seeded schedulers "
                                   "(random/PCT/round-robin/sticky), replay files with minimisation"}],
    "checks": checks,
    "not_applicable": na,
    "notes": "exit 0 = held (KNOWN-FINDING lines allowed), exit 1 = VIOLATION line with replay file, exit 2 = HARNESS-ERROR "
             "(never a pass). ./check selftest-determinism proves same-seed runs are identical. Known findings and fixed "
             "defects: known_findings.json; DESIGN.md section 7.",
}
with open(os.path.join(VERIF, "MANIFEST.json"), "w") as f:
    json.dump(doc, f, indent=1)
import jsonschema
jsonschema.validate(doc, json.load(open("/root/.vp/MANIFEST.schema.json")))
print("MANIFEST.json:", len(checks), "checks,", len(na), "not applicable")

#!/bin/bash
# run every registered check at the given tier and print a one-line verdict each
cd "$(dirname "$0")/.." || exit 2
tier=${1:-quick}; shift
ids=${@:-$(ls scenarios/c[0-9][0-9].py | sed 's/.*\/c\([0-9]*\).py/C\1/')}
rc=0
for id in $ids; do
  out=$(./check "$id" --tier "$tier" 2>&1); code=$?
  echo "== $id exit=$code $(echo "$out" | grep -m1 '^\[' | cut -c1-150)"
  echo "$out" | grep -E "^(VIOLATION|KNOWN-FINDING|HARNESS-ERROR|  rule=|  detail)" | cut -c1-260
  [ $code -ne 0 ] && rc=1
done
exit $rc

#!/bin/bash
# Import the changes an independent sub-agent left in its scratch worktree (/tmp/wt/<PROP>/_out/mN) into
# /verif/seeded/<PROP>-mN, remove the scratch worktree and evaluate each change (tools/eval_seeded.py).
# Usage: tools/import_seeded.sh C16 m8 m9
set -u
P=$1; shift
V=$(cd "$(dirname "$0")/.." && pwd)
for m in "$@"; do
  src=/tmp/wt/$P/_out/$m
  [ -f "$src/patch.diff" ] || { echo "missing $src/patch.diff"; continue; }
  dst=$V/seeded/$P-$m
  mkdir -p "$dst"
  cp "$src/patch.diff" "$src/demo.py" "$dst/"
  [ -f "$src/agent_notes.md" ] && cp "$src/agent_notes.md" "$dst/"
done
git -C /repo worktree remove --force /tmp/wt/$P
for m in "$@"; do
  [ -f "$V/seeded/$P-$m/patch.diff" ] && "$V/tools/eval_seeded.py" "$P-$m" 2>&1 | tail -3
done

#!/venv/bin/python
"""Print the markdown table of DESIGN.md 0.6 for a set of seeded changes from their meta.json files.
Usage: tools/seeded_table.py m5 m6 m7"""
import json, os, re, sys, glob
V = os.path.dirname(os.path.dirname(os.path.abspath(__file__)))
sufs = sys.argv[1:] or ["m5", "m6", "m7"]
print("| change | needs | caught by (rules) | violating runs / runs |")
print("|---|---|---|---|")
for d in sorted(glob.glob(os.path.join(V, "seeded", "*"))):
    name = os.path.basename(d)
    if name.split("-")[1] not in sufs:
        continue
    m = json.load(open(os.path.join(d, "meta.json")))
    out = m.get("check_output", [])
    head = next((l for l in out if l.startswith("[")), "")
    runs = re.search(r"runs=(\d+)/", head)
    viol = re.search(r"'violation': (\d+)", head)
    rules = []
    for l in out:
        mm = re.search(r"rule=(\S+) signature=(\S+)", l)
        if mm:
            sig = mm.group(2).split("|")
            rules.append(sig[0] + " " + sig[1] if len(sig) > 1 else sig[0])
    rules = list(dict.fromkeys(rules))[:3]
    verdict = "caught" if m.get("check_detected") else ("HARNESS-ERROR" if m.get("check_exit") == 2 else "**missed**")
    print(f"| {name} {m.get('change', '')} | {m.get('needs_to_manifest', '')} | {', '.join(rules) if rules else verdict} | "
          f"{viol.group(1) if viol else 0} / {runs.group(1) if runs else '?'} |")

#!/venv/bin/python
"""Merge the hand-written description of every seeded change into its meta.json (what it breaks, what it needs)."""
import json, os
V = os.path.dirname(os.path.dirname(os.path.abspath(__file__)))
NOTES = {
 "C04-m1": ("hsms/protocol.py frame completeness check 4 bytes short (peek/pop refactoring)", "a TCP segment ending 1-4 bytes before the end of a frame"),
 "C04-m2": ("protocol_dispatcher.py: trigger.clear() moved behind the drain loop (lost wake-up)", "a block queued exactly between the dispatcher's last qsize()==0 check and the clear(), and no later traffic"),
 "C05-m1": ("hsms/protocol.py: receive buffer cleared in _on_connected instead of _on_disconnected", "peer's first bytes (Select.req in flight) delivered by the TCP receiver thread before the accepting thread runs _on_connected"),
 "C05-m2": ("hsms/protocol.py: response-queue shortcut moved in front of the SELECTED check", "open transaction + session becomes NOT SELECTED (Deselect.req) + data message with exactly that transaction's system bytes"),
 "C06-m1": ("common/protocol.py: system id handed back (counter -= 1) after a failed send", "a send failing at a link loss while two more requesters interleave: duplicate system bytes, KeyError in _remove_queue"),
 "C06-m2": ("hsms/protocol.py: frame length cached across calls, not reset on disconnect", "link lost in the middle of a frame (>=4 bytes received) followed by a reconnect"),
 "C07-m1": ("gem/handler.py: S1F13 sender registered on the select transition instead of WAIT_CRA enter", "first S1F13 unanswered for T3, then the establish delay expires: no new S1F13 on the wire"),
 "C07-m2": ("gem/handler.py: WAIT_DELAY/COMMUNICATING branches folded into `!= WAIT_DELAY`", "a message handed up by the protocol layer while DISABLED/NOT_COMMUNICATING (possible on SECS-I: block queued behind a slow callback while disable() runs; HSMS filters by SELECTED)"),
 "C08-m1": ("protocol_dispatcher.py lost wake-up (same mechanism as C04-m2)", "a second primary queued between the dispatcher's empty check and clear(): it is only answered when later traffic arrives"),
 "C08-m2": ("common/protocol.py: `system or self.get_next_system_counter()` in a merged send helper", "a primary whose system bytes are exactly 0x00000000"),
 "C09-m1": ("hsms/protocol.py: cached frame length survives a disconnect", "stream cut inside a frame with a body at offset >=4, link loss, reconnect"),
 "C09-m2": ("protocol_dispatcher.py: stop() also joins the dispatcher thread", "peer sends a complete request and closes without waiting for the reply: the handler thread is still sending when stop() joins it"),
 "C10-m1": ("tcp_connection.py: EWOULDBLOCK branch ends the retry loop, data dropped, True returned (rebased on the repaired send loop)", "send() raising EAGAIN after select() reported writable (spurious readiness / competing writer)"),
 "C10-m2": ("tcp_connection.py: hard socket error in send() logged, then success reported (rebased)", "EPIPE/ECONNRESET raised inside send() while the connection breaks during a send"),
 "C11-m1": ("control_state_machine.py: switch_online_remote updates _initial_control_state instead of _online_control_state", "LOCAL remembered, operator REMOTE, leave ON-LINE, re-enter ON-LINE: ends LOCAL instead of REMOTE"),
 "C11-m2": ("state_models_capability.py: S1F17 ONLACK decision refactored, ATTEMPT_ONLINE falls into the else branch", "S1F17 handled while the operator thread waits for the reply to its S1F1 probe"),
 "C12-m1": ("collection_event_capability.py: S2F33 pre-check verdict is 'last report wins'", "one S2F33 with >=2 report entries where the bad entry (unknown VID / redefinition) is not the last"),
 "C12-m2": ("collection_event_capability.py: delete-one iterates the dict directly and breaks after the first emptied link (rebased)", "a report linked to >=2 events, the earlier link becomes empty, then S6F15/trigger on the later event"),
 "C13-m1": ("equipment_constants_capability.py: S2F15 validates and applies in one pass", "multi-item S2F15 with a valid pair in front of an unknown/out-of-range one"),
 "C13-m2": ("alarm.py/alarm_capability.py: clear report depends on a 'reported' flag recorded at set time", "set_alarm while disabled, host enables (S5F3), clear_alarm: no S5F1"),
 "C16-m1": ("common/message.py: last_block = len(block_data) < block_size", "body length a non-zero multiple of 244: no block carries the end bit"),
 "C16-m2": ("secsi/header.py: block-number mask one bit short on decode", "block numbers >= 16384, or flipping bit 0x40 of encoded byte 5 goes undetected"),
 "C17-m1": ("common/protocol.py send_message queues all blocks at once", "multi-block message with a corrupted block that is not the last: remaining blocks still sent, fragment delivered"),
 "C17-m2": ("common/message.py: `>` instead of `>=` for last_block in a refactored split loop", "body length exactly 244*k: all blocks ACKed, message never delivered"),
 "C18-m1": ("state_machine.py: destination kept in shared attribute _next_state written before the source check (rebased on the locked engine)", "a rejected request arriving while another transition is between its check and commit (leave handler or second thread)"),
 "C18-m2": ("state_machine.py: State.leave passes `destination` up instead of `destination.parent`", "hierarchy >= 3 levels and a transition between cousin leaves"),
 "C20-m1": ("hsms/protocol.py: _on_disconnected clears _incomplete_messages instead of the receive buffer", "frame delivered partially (segmentation), link goes down, reconnect: framing shifted, select never answered"),
 "C20-m2": ("collection_event_capability.py: S2F33 delete-all keeps the CEID links", "subscribe, clear_collection_events, subscribe the same CEID again, trigger: KeyError in the sender thread"),
 "C04-m3": ("protocol_dispatcher.py: receiver-thread trigger.clear() moved behind the processing cycle (lost wake-up)", "final segment of a split frame arriving between the incomplete-frame check and the clear(): frame stays in the buffer until unrelated traffic"),
 "C04-m4": ("hsms/protocol.py: Separate.req handled on the receiver thread before the block is queued", "data frames immediately followed by Separate.req in one segment: the data in front of it is rejected"),
 "C05-m3": ("hsms/protocol.py: receive buffer cleared in _on_connected (same idea as C05-m1, written independently)", "Select.req in flight during the accept"),
 "C05-m4": ("hsms/protocol.py: open-transaction routing moved in front of the SELECTED check (same idea as C05-m2)", "NOT SELECTED + data with the system bytes of an open transaction"),
 "C06-m3": ("common/protocol.py: response queue cached per thread (threading.local) and reused", "a reply arriving after T3 or a duplicate reply, then another request from the same thread: stale reply returned to the wrong request"),
 "C06-m4": ("receive buffer cleared in Protocol.disable() instead of _on_disconnected", "link drops inside a frame and the connection layer reconnects by itself"),
 "C07-m3": ("communication_state_machine.py: leave-WAIT_DELAY handler cancels the WAIT_CRA timer instead of the delay timer", "WAIT_DELAY left by link loss/disable, link selected again, second attempt fails before the stale timer expires: retry too early"),
 "C07-m4": ("gem/handler.py: early returns for WAIT_DELAY/WAIT_CRA, everything else dispatched (same idea as C07-m2)", "message dispatched in DISABLED/NOT_COMMUNICATING (SECS-I: queued behind a slow callback across disable)"),
 "C08-m3": ("protocol_dispatcher.py: receiver-thread lost wake-up (reply queued but never written)", "send_response queues the reply while the receiver thread is between its empty check and the trailing clear()"),
 "C08-m4": ("hsms/protocol.py: logging-decode guard narrowed to ValueError", "catalogued function whose body ends inside an item header (IndexError): no reply at all"),
 "C09-m3": ("hsms/protocol.py: cached pending frame length not reset on disconnect (same idea as C09-m1)", "link loss at offset >= 4 inside a frame with a body, then a new connection"),
 "C09-m4": ("hsms/protocol.py: _on_disconnecting skips Separate.req when not SELECTED", "peer connects and closes at once: the close sequence overtakes _on_connected, state stays CONNECTED_NOT_SELECTED"),
 "C10-m3": ("tcp_connection.py: cumulative byte counter used as a relative slice offset", ">= 2 partial sends within one send_data call"),
 "C10-m4": ("tcp_connection.py: select timeout + not connected ends the loop with success", "sender blocked on a full buffer for > 0.5 s while the peer half-closes (FIN) and keeps its socket open"),
 "C11-m3": ("state_models_capability.py: S1F15/S1F17 handlers wait for the transition lock", "host request arriving while the operator's attempt-online probe is outstanding"),
 "C11-m4": ("control_state_machine.py: switch_online_remote remembers index [0] (LOCAL)", "LOCAL, operator REMOTE, leave and re-enter ON-LINE"),
 "C12-m3": ("collection_event_capability.py: S2F35 pre-check verdict reset per entry", "S2F35 with >= 2 entries where a bad entry is not the last"),
 "C12-m4": ("collection_event_capability.py: delete-one rebuilds the link list from a set", "event linked to >= 3 reports in non-ascending order, delete one: link order lost"),
 "C13-m3": ("equipment_constants_capability.py: range verdict reassigned per item", "S2F15 with an out-of-range value that is not last and a valid last item"),
 "C13-m4": ("alarm.py/alarm_capability.py: clear report depends on a 'reported' flag (same idea as C13-m2)", "set while disabled, enable, clear"),
 "C16-m3": ("common/message.py: block count len//244 + 1", "body length k*244: no E-bit"),
 "C16-m4": ("common/protocol.py: _add_message_block clears all incomplete messages when a new system id starts", "blocks of two multi-block messages interleaved"),
 "C17-m3": ("common/protocol.py send_message keeps sending after a failed block and returns the last result", "multi-block message, corrupted non-last block"),
 "C17-m4": ("secsi/protocol.py: handshake characters skipped where the length byte is expected (NAK = 0x15 = 21)", "last block with exactly 11 data bytes (body 11, 255, 499 ...)"),
 "C18-m3": ("state_machine.py: handlers run outside the transition lock", "thread 2 requests B->C while thread 1 is still inside its handlers for A->B"),
 "C18-m4": ("state_machine.py: State.leave passes the destination unchanged (same idea as C18-m2)", ">= 3 hierarchy levels, cousins"),
 "C20-m3": ("gem/handler.py: enable() enables the protocol before the communication state machine", "enabling thread descheduled between the two calls while the peer is reachable (found through the thread-stall fault)"),
 "C20-m4": ("collection_event_capability.py: delete-all disables the links instead of removing them", "subscribe, clear_collection_events, subscribe same CEID with a new report id, trigger"),
}
for name, (what, needs) in NOTES.items():
    p = os.path.join(V, "seeded", name, "meta.json")
    d = json.load(open(p)) if os.path.exists(p) else {"id": name, "property": name.split("-")[0]}
    d["breaks_property"] = name.split("-")[0]
    d["change"] = what
    d["needs_to_manifest"] = needs
    d["origin"] = "written by an independent sub-agent that saw only the property text and its own scratch worktree"
    json.dump(d, open(p, "w"), indent=1)
print(len(NOTES), "meta.json files updated")

#!/venv/bin/python
"""Evaluate one seeded change (/verif/seeded/<PROP>-mN): confirm it (suite green with it, demo fails with it and passes
without it) in scratch worktrees of /repo's HEAD, then run the property's check against the changed tree.
Usage: tools/eval_seeded.py C04-m1 [--tier quick] [--runs N] [--skip-confirm]"""
import json, os, subprocess, sys, time, shutil

VERIF = os.path.dirname(os.path.dirname(os.path.abspath(__file__)))
name = sys.argv[1]
tier = "quick"
runs = None
skip = "--skip-confirm" in sys.argv
if "--tier" in sys.argv:
    tier = sys.argv[sys.argv.index("--tier") + 1]
if "--runs" in sys.argv:
    runs = sys.argv[sys.argv.index("--runs") + 1]
prop = name.split("-")[0]
sdir = os.path.join(VERIF, "seeded", name)
patch = os.path.join(sdir, "patch.diff")
scratch = f"/tmp/mut/{name}"
clean = f"/tmp/mut/{name}-clean"


def sh(cmd, cwd=None, timeout=1800, env=None):
    p = subprocess.run(cmd, shell=True, cwd=cwd, capture_output=True, text=True, timeout=timeout, env=env)
    return p.returncode, (p.stdout + p.stderr)


os.makedirs("/tmp/mut", exist_ok=True)
for d in (scratch, clean):
    sh(f"git -C /repo worktree remove --force {d}")
    shutil.rmtree(d, ignore_errors=True)
head = sh("git -C /repo rev-parse --short HEAD")[1].strip()
meta = {"id": name, "property": prop, "repo_head": head, "evaluated_at": time.strftime("%Y-%m-%dT%H:%M:%SZ", time.gmtime())}
try:
    rc, out = sh(f"git -C /repo worktree add --detach {scratch} HEAD")
    rc, out = sh(f"git apply {patch}", cwd=scratch)
    meta["applies"] = rc == 0
    if rc != 0:
        meta["apply_error"] = out[-400:]
        raise SystemExit
    if not skip:
        rc, out = sh("/venv/bin/python -m pytest -q -p no:cacheprovider --no-cov -x --timeout=900", cwd=scratch)
        meta["suite_with_change"] = out.strip().splitlines()[-1][-120:] if out.strip() else ""
        meta["suite_passes_with_change"] = rc == 0
        mdir = os.path.join(scratch, "_out", name.split("-")[1])
        os.makedirs(mdir, exist_ok=True)
        shutil.copy(os.path.join(sdir, "demo.py"), mdir)
        rel = f"_out/{name.split('-')[1]}/demo.py"
        rc, out = sh(f"/venv/bin/python {rel}", cwd=scratch, timeout=900)
        meta["demo_with_change_exit"] = rc
        meta["demo_with_change_tail"] = out.strip()[-300:]
        sh(f"git -C /repo worktree add --detach {clean} HEAD")
        mdir = os.path.join(clean, "_out", name.split("-")[1])
        os.makedirs(mdir, exist_ok=True)
        shutil.copy(os.path.join(sdir, "demo.py"), mdir)
        rc, out = sh(f"/venv/bin/python {rel}", cwd=clean, timeout=900)
        meta["demo_without_change_exit"] = rc
        if rc != 0:
            meta["demo_without_change_tail"] = out.strip()[-300:]
        meta["confirmed"] = bool(meta["suite_passes_with_change"] and meta["demo_with_change_exit"] != 0 and rc == 0)
    env = dict(os.environ, VERIF_REPO=scratch, VERIF_MINIMISE="4")
    if runs:
        env["VERIF_RUNS"] = runs
    # the check writes evidence/replays under /verif: keep the real ones untouched by working in a copy of /verif
    work = f"/tmp/mut/{name}-verif"
    shutil.rmtree(work, ignore_errors=True)
    sh(f"git -C {VERIF} worktree remove --force {work}")
    shutil.copytree(VERIF, work, ignore=shutil.ignore_patterns(".git", "replays", "evidence", "__pycache__", "seeded"))
    t0 = time.time()
    rc, out = sh(f"./check {prop} --tier {tier}", cwd=work, env=env, timeout=3000)
    meta["check_cmd"] = f"VERIF_REPO=<worktree with patch> ./check {prop} --tier {tier}" + (f" (VERIF_RUNS={runs})" if runs else "")
    meta["check_exit"] = rc
    meta["check_wall_s"] = round(time.time() - t0, 1)
    meta["check_detected"] = rc == 1
    lines = [l for l in out.splitlines() if l.startswith(("VIOLATION", "  rule=", "  detail", "HARNESS-ERROR", "KNOWN-FINDING", "["))]
    meta["check_output"] = [l[:300] for l in lines][:14]
    shutil.rmtree(work, ignore_errors=True)
finally:
    for d in (scratch, clean):
        sh(f"git -C /repo worktree remove --force {d}")
        shutil.rmtree(d, ignore_errors=True)
    old = {}
    mp = os.path.join(sdir, "meta.json")
    if os.path.exists(mp):
        try:
            old = json.load(open(mp))
        except Exception:
            old = {}
    old.update(meta)
    json.dump(old, open(mp, "w"), indent=1)
    print(name, "applies=", meta.get("applies"), "confirmed=", meta.get("confirmed"), "check_exit=", meta.get("check_exit"),
          [l for l in meta.get("check_output", []) if "rule=" in l][:3])
